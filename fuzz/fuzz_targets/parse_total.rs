// C10 supplement: Parser::parse must return (Ok or Err) for every argument vector - no panic, no hang.
// Input bytes -> lossy UTF-8 -> arguments separated by U+0001 (at most 12).
#![no_main]
#![allow(dead_code, unused_imports, unused_macros, unexpected_cfgs)]

#[macro_use]
extern crate serde_derive;
extern crate uzers;
extern crate xattr;

include!("common.rs");

use libfuzzer_sys::fuzz_target;

fuzz_target!(|data: &[u8]| {
    let text = String::from_utf8_lossy(data);
    let args: Vec<String> = text.split('\u{1}').take(12).map(|s| s.to_string()).collect();
    if args.iter().all(|a| a.trim().is_empty()) {
        return;
    }
    let mut p = parser::Parser::new();
    let _ = p.parse(args, false);
});
