// C10 supplement (evaluation half): every scalar function applied to arbitrary argument strings either
// returns a value or rejects cleanly (error_exit -> status 2) - it never panics.
// Input bytes -> lossy UTF-8 -> fields separated by U+0001: function word, first argument, up to 3 more.
// Needs the fselect_verif hook: with FSELECT_VERIF_EXIT_UNWINDS set error_exit unwinds with VerifExit
// (resume_unwind: no panic hook, so libFuzzer does not abort) instead of ending the process.
#![no_main]
#![allow(dead_code, unused_imports, unused_macros, unexpected_cfgs)]

#[macro_use]
extern crate serde_derive;
extern crate uzers;
extern crate xattr;

include!("common.rs");

use libfuzzer_sys::fuzz_target;
use std::str::FromStr;

fuzz_target!(|data: &[u8]| {
    static INIT: std::sync::Once = std::sync::Once::new();
    INIT.call_once(|| unsafe { std::env::set_var("FSELECT_VERIF_EXIT_UNWINDS", "1") });
    let text = String::from_utf8_lossy(data);
    let mut parts = text.split('\u{1}');
    let fname = match parts.next() {
        Some(f) => f.trim().to_string(),
        None => return,
    };
    let f = match function::Function::from_str(&fname) {
        Ok(f) => f,
        Err(_) => return,
    };
    if f.is_aggregate_function() {
        return;
    }
    let arg = parts.next().unwrap_or("").to_string();
    let args: Vec<String> = parts.take(3).map(|s| s.to_string()).collect();
    let r = std::panic::catch_unwind(std::panic::AssertUnwindSafe(|| {
        let v = function::get_value(&Some(f), arg, args, None, &None);
        // the conversions a caller may apply to the result
        let _ = v.to_string();
        let _ = v.to_int();
        let _ = v.to_float();
        let _ = v.to_bool();
    }));
    if let Err(p) = r {
        if p.downcast_ref::<util::VerifExit>().is_none() {
            std::panic::resume_unwind(p);   // a real panic whose hook already ran: libFuzzer has aborted by now
        }
    }
});
