// C11 supplement: parsing a query given as one argument and the same query split into shell words at
// whitespace (outside quotes) must give the same Result<Query> (compared through {:?}).
// First byte pair = split mask; rest = query text. The open finding K02 (a search-root word sharing its shell
// word with following tokens) is skipped by construction.
#![no_main]
#![allow(dead_code, unused_imports, unused_macros, unexpected_cfgs)]

#[macro_use]
extern crate serde_derive;
extern crate uzers;
extern crate xattr;

include!("common.rs");

use libfuzzer_sys::fuzz_target;

fn tokens(s: &str) -> Option<Vec<String>> {
    let mut out = vec![];
    let mut cur = String::new();
    let mut quote: Option<char> = None;
    for c in s.chars() {
        match quote {
            Some(q) => {
                cur.push(c);
                if c == q {
                    quote = None;
                }
            }
            None => {
                if c == ' ' {
                    if !cur.is_empty() {
                        out.push(std::mem::take(&mut cur));
                    }
                } else {
                    if c == '\'' || c == '"' || c == '`' {
                        quote = Some(c);
                    }
                    cur.push(c);
                }
            }
        }
    }
    if quote.is_some() {
        return None;
    }
    if !cur.is_empty() {
        out.push(cur);
    }
    Some(out)
}

fuzz_target!(|data: &[u8]| {
    if data.len() < 3 {
        return;
    }
    let mask = u16::from_le_bytes([data[0], data[1]]);
    let text = match std::str::from_utf8(&data[2..]) {
        Ok(t) => t,
        Err(_) => return,
    };
    if text.chars().any(|c| c.is_control() || c == '\u{a0}') {
        return;
    }
    let toks = match tokens(text) {
        Some(t) if t.len() >= 2 && t.len() <= 16 => t,
        _ => return,
    };
    // a quote inside a word (a'b) makes whitespace splitting ambiguous: only whole-token quotes
    for t in &toks {
        let inner_quote = t.chars().skip(1).take(t.chars().count().saturating_sub(2)).any(|c| c == '\'' || c == '"' || c == '`');
        let starts = t.starts_with(['\'', '"', '`']);
        if inner_quote || (!starts && t.contains(['\'', '"', '`'])) {
            return;
        }
    }
    let one = vec![toks.join(" ")];
    let mut split: Vec<String> = vec![toks[0].clone()];
    for (i, t) in toks.iter().enumerate().skip(1) {
        if mask & (1 << ((i - 1) % 16)) != 0 {
            split.push(t.clone());
        } else {
            let last = split.last_mut().unwrap();
            last.push(' ');
            last.push_str(t);
        }
    }
    if split.len() < 2 {
        return;
    }
    // K02 (open finding): with several arguments the lexer lets a search-root word run to the end of its shell
    // word. Its effect is exactly a root lexem (RawString right after FROM or a comma) that contains a blank, comma
    // or bracket - impossible in one-argument mode. Such inputs are skipped.
    {
        let mut lx = lexer::Lexer::new(split.clone());
        let mut prev: Option<lexer::Lexem> = None;
        while let Some(l) = lx.next_lexem() {
            if let lexer::Lexem::RawString(ref s) = l {
                if matches!(prev, Some(lexer::Lexem::From) | Some(lexer::Lexem::Comma))
                    && s.contains([' ', ',', '(', ')', '{', '}'])
                {
                    return;
                }
            }
            prev = Some(l);
        }
    }
    let a = format!("{:?}", parser::Parser::new().parse(one, false));
    // the property is about valid queries: a text that is rejected as one argument is outside its domain
    if !a.starts_with("Ok(") {
        return;
    }
    let b = format!("{:?}", parser::Parser::new().parse(split.clone(), false));
    if a != b {
        panic!("split invariance violated: {:?} vs one argument", split);
    }
});
