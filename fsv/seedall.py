"""Re-judge every kept seeded change (/verif/seeded/*/patch.diff) with the checks as they are NOW.

Works on a scratch copy of the repository only (vp run --with-repo sets VP_RUN_REPO; or FSV_REPO), never on /repo:
    vp run --with-repo -- python3-vt -m fsv.seedall [name-prefix ...]
For each change: git apply, build into a private target directory, run the property's quick check with the pinned
regression cases disabled (the verdict is the generated search's and the enumerations'), git checkout. Results go to
seeded_results.json in the working directory (copy it to /verif/sensitivity/ afterwards).
"""
import glob
import json
import os
import subprocess
import sys
import time

VERIF = os.path.dirname(os.path.dirname(os.path.abspath(__file__)))


def main():
    repo = os.environ.get("VP_RUN_REPO") or os.environ.get("FSV_REPO")
    if not repo or os.path.realpath(repo) == "/repo":
        print("refusing to patch /repo itself: run through `vp run --with-repo` or set FSV_REPO to a scratch copy")
        sys.exit(2)
    target = os.environ.get("FSV_TARGET") or "/tmp/fsv-seedall-target"
    env = dict(os.environ, FSV_REPO=repo, FSV_TARGET=target, FSV_SKIP_PINNED="1")
    want = sys.argv[1:]
    results = []
    for d in sorted(glob.glob(os.path.join(VERIF, "seeded", "*"))):
        name = os.path.basename(d)
        if want and not any(name.startswith(w) or ("*" in w and w.strip("*") in name) for w in want):
            continue
        meta = json.load(open(os.path.join(d, "meta.json")))
        prop = meta["property"]
        patch = os.path.join(d, "patch.diff")
        subprocess.run(["git", "-C", repo, "reset", "-q", "--hard"])
        a = subprocess.run(["git", "-C", repo, "apply", patch], stdout=subprocess.PIPE, stderr=subprocess.STDOUT)
        if a.returncode != 0:
            # tolerate moved context (later repairs shifted the lines), but never a three-way merge
            a = subprocess.run(["git", "-C", repo, "apply", "-C1", "--ignore-whitespace", patch], stdout=subprocess.PIPE, stderr=subprocess.STDOUT)
        if a.returncode != 0:
            subprocess.run(["git", "-C", repo, "reset", "-q", "--hard"])
            results.append({"change": name, "property": prop, "verdict": "patch does not apply to the current tree", "detail": a.stdout.decode()[-200:]})
            print(name, "patch does not apply")
            continue
        t0 = time.time()
        try:
            p = subprocess.run([sys.executable, "-m", "fsv.check", prop, "--tier", "quick"], env=env, stdout=subprocess.PIPE,
                               stderr=subprocess.STDOUT, cwd=VERIF if os.path.isdir(os.path.join(VERIF, "fsv")) else None)
            out = p.stdout.decode("utf-8", "replace")
        finally:
            subprocess.run(["git", "-C", repo, "reset", "-q", "--hard"])
        sig = ""
        for line in out.splitlines():
            if line.strip().startswith("failing"):
                sig = line.strip()[:300]
                break
        verdict = {0: "held (NOT detected)", 1: "VIOLATION (detected)", 2: "infrastructure"}.get(p.returncode, "rc=%d" % p.returncode)
        results.append({"change": name, "property": prop, "verdict": verdict, "seconds": round(time.time() - t0), "first_failure": sig})
        print(name, prop, verdict, "%ds" % (time.time() - t0), sig[:170])
        sys.stdout.flush()
        with open("seeded_results.json", "w") as fh:
            json.dump(results, fh, indent=1)
    print("done; remove", target)


if __name__ == "__main__":
    main()
