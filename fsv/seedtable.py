"""Regenerate DESIGN.md section 12.6 (seeded changes) from /verif/seeded/*/meta.json.

    python3-vt -m fsv.seedtable
"""
import glob
import json
import os
import re

VERIF = os.path.dirname(os.path.dirname(os.path.abspath(__file__)))

INTRO = """### 12.6 Seeded changes: which check catches which change

Two rounds. In each, one fresh sub-agent per property was given only the property text and its own scratch worktree
(nothing from /verif) and asked for a realistic change that breaks the property, compiles, passes the 137 tests and
needs something specific to manifest; in round 2 the agent was additionally told which site round 1 had used and to
find a different mechanism (preferably an interplay of two features: a cache with a second occurrence, an option with
a clause, state carried from one root / row / entry to the next). Each kept change
(`/verif/seeded/<name>/{patch.diff, demo.sh, NOTES.md, meta.json}`) was verified by me (tests pass with it, `demo.sh`
exits 1 with it and 0 without), then applied to /repo (`fsv/seedrun.sh`, which also puts the evidence file of the
unchanged tree back), the quick check run with the pinned regression cases disabled (`FSV_SKIP_PINNED=1`: the verdict
is the generated search's), and /repo restored. "MISSED" entries show where a check was strengthened - never loosened -
afterwards; every strengthened check was re-run on the unchanged tree.

| Seeded change | Property | Needs | Verdict of the quick check |
|---|---|---|---|
"""

SUMMARY = """
Round 1: 20 changes, 15 caught by the checks as first written, 5 missed (C02 sub-second mtimes, C06 archive budget
under a member-separating filter, C07 large values with small spread, C17 unlistable *root*, C20 root below an ignored
directory) and caught after the generator / oracle was extended. Two of those extensions found further genuine
behaviour on the unchanged tree (hg ancestors: fixed in 4be56c6; libgit2 negation inside an excluded directory: K03).

Round 2: 20 changes, 8 caught as written (C01, C06, C10, C12, C13, C15, C16, C19), 12 missed and caught after
strengthening. The misses have one theme: **a second occurrence inside one invocation** - the same literal under two
operator families (C02, C03), two size specifiers (C14), two roots (C09, C20), two links with one text (C18), a nested
call in the other bracket style (C11), an aggregate inside a function next to a plain one (C08), a date function as
second order key (C05), the `symlinks` option next to metadata columns (C04), values that are empty for some entries
(C07), a reader that fails under `archives` (C17). The checks as first written mostly varied *one* thing per
invocation; they now deliberately put related variants side by side (DESIGN 4, "context independence" sub-checks).
The round-2 C10 agent also reported two panics of the **unchanged** tree that C10's generators had not reached; that
led to class vi (root options), the exhaustive function x argument enumeration and the `eval_total` fuzz target, which
found three more (12.2 F41-F45).
"""


def main():
    rows = []
    for d in sorted(glob.glob(os.path.join(VERIF, "seeded", "*"))):
        mf = os.path.join(d, "meta.json")
        if not os.path.exists(mf):
            continue
        m = json.load(open(mf))
        esc = lambda t: t.replace("|", "\\|").replace("\n", " ")
        rows.append("| `%s` | %s | %s | %s |" % (os.path.basename(d), m["property"], esc(m["needs_to_manifest"]), esc(m["detection"])))
    text = INTRO + "\n".join(rows) + "\n" + SUMMARY
    p = os.path.join(VERIF, "DESIGN.md")
    s = open(p).read()
    i = s.index("### 12.6 Seeded changes")
    m = re.search(r"\n##+ ", s[i + 10:])
    j = i + 10 + m.start() + 1 if m else len(s)
    open(p, "w").write(s[:i] + text + s[j:])
    print("DESIGN.md 12.6: %d seeded changes" % len(rows))


if __name__ == "__main__":
    main()
