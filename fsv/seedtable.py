"""Regenerate DESIGN.md section 12.6 (seeded changes) from /verif/seeded/*/meta.json.

    python3-vt -m fsv.seedtable
"""
import glob
import json
import os
import re

VERIF = os.path.dirname(os.path.dirname(os.path.abspath(__file__)))

INTRO = """### 12.6 Seeded changes: which check catches which change

Six rounds. In each, one fresh sub-agent per property was given only the property text and its own scratch worktree
(nothing from /verif) and asked for a realistic change that breaks the property, compiles, passes the 137 tests and
needs something specific to manifest; in round 2 the agent was additionally told which site round 1 had used and to
find a different mechanism (preferably an interplay of two features: a cache with a second occurrence, an option with
a clause, state carried from one root / row / entry to the next); in round 3 it was told both earlier sites, that the
wrongly-keyed-cache idea was used up, and to prefer what a reviewer would wave through (a boundary off by one, a
condition right for the common case, an error path that skips a later step, a refactoring that changes evaluation order). Each kept change
(`/verif/seeded/<name>/{patch.diff, demo.sh, NOTES.md, meta.json}`) was verified by me (tests pass with it, `demo.sh`
exits 1 with it and 0 without), then applied to /repo (`fsv/seedrun.sh`, which also puts the evidence file of the
unchanged tree back), the quick check run with the pinned regression cases disabled (`FSV_SKIP_PINNED=1`: the verdict
is the generated search's), and /repo restored. "MISSED" entries show where a check was strengthened - never loosened -
afterwards; every strengthened check was re-run on the unchanged tree.

| Seeded change | Property | Needs | Verdict of the quick check |
|---|---|---|---|
"""

SUMMARY = """
Round 1: 20 changes, 15 caught by the checks as first written, 5 missed (C02 sub-second mtimes, C06 archive budget
under a member-separating filter, C07 large values with small spread, C17 unlistable *root*, C20 root below an ignored
directory) and caught after the generator / oracle was extended. Two of those extensions found further genuine
behaviour on the unchanged tree (hg ancestors: fixed in 4be56c6; libgit2 negation inside an excluded directory: K03).

Round 2: 20 changes, 8 caught as written (C01, C06, C10, C12, C13, C15, C16, C19), 12 missed and caught after
strengthening. The misses have one theme: **a second occurrence inside one invocation** - the same literal under two
operator families (C02, C03), two size specifiers (C14), two roots (C09, C20), two links with one text (C18), a nested
call in the other bracket style (C11), an aggregate inside a function next to a plain one (C08), a date function as
second order key (C05), the `symlinks` option next to metadata columns (C04), values that are empty for some entries
(C07), a reader that fails under `archives` (C17). The checks as first written mostly varied *one* thing per
invocation; they now deliberately put related variants side by side (DESIGN 4, "context independence" sub-checks).
The round-2 C10 agent also reported two panics of the **unchanged** tree that C10's generators had not reached; that
led to class vi (root options), the exhaustive function x argument enumeration and the `eval_total` fuzz target, which
found three more (12.2 F41-F45).

Round 3: 20 changes, 10 caught as written (C05, C07, C10, C11, C12, C13, C14, C15, C16, C17), 10 missed and caught
after strengthening (C01, C02, C03, C04, C06, C08, C09, C18, C19, C20 - see the table). This round's misses are about **the input alphabet**: a backslash or a bracket in a name, a
letter whose code point ends in the byte of `&`, an extension that looks like a number, a strict operator with a
wildcard literal, a capability xattr of revision 3, a zip member without any mode (which the harness *believed* it was
generating - Python's writestr silently substituted 0600), plus two option combinations the property's quantifier lists
and the checks had left out (`symlinks` x depth window, ignore switch x depth window). Strengthening C08 for its seeded
change exposed a genuine defect (grouped ORDER BY is not a total order; unsorted rows and a panic: F46), and a side
remark of the C15 agent another (an integer column compared with `11.6` reads the literal as 0: F47); the C20 extension
exposed an error in the check's own oracle before it was ever committed (DESIGN 7).

Round 4 was run on the REPAIRED tree (at f10c681, some 115 `fix:` commits after the pinned one), with the three earlier
sites of each property named as used up and a careless simplification of a recent repair explicitly allowed: 20 changes,
14 caught by the checks as they stood (C02, C03, C04, C05, C06, C07, C08, C09, C11, C12, C13, C14, C16, C20), 6 missed
and caught after strengthening. Two of the six were caught by ANOTHER property's check than the one the agent had been
given (C01's change needs `symlinks`: C18; C15's needs operators without blanks: C11 after an extension), which is how
the properties divide the ground. The four real gaps were again shapes the generators had left out on purpose or by
habit: bracketed operands in a long chain (C10), a directory that can be listed but not searched (C17), looping links
with ABSOLUTE targets together with an exemption of every tree that has a looping link (C18), `is_file` of an archive
member (C19). Several of the caught changes were "simplifications" of this session's own repairs (the balanced AND/OR
chain, the rounding of scaled size literals, `lstat` identity of directories, the comma rule after BY): the checks that
motivated those repairs hold them in place.

Round 5 (same set-up, four used-up sites per property, the agents asked to aim at a part of the statement not attacked
yet): 20 changes, 14 caught as the checks stood (C01, C02, C03, C05, C06, C07, C08, C09, C10, C12, C13, C14, C15, C18),
6 missed and caught after strengthening: a CONTAINS needle across a line end (C04), arithmetic signs after BY (C11 - the
grammar had only plain keys there), the smallest 64-bit integer under ABS (C16), an aggregate over a content column with
an unreadable file in the middle (C17: the expected value had been computed and never compared - an oracle with a hole),
a filter together with LIMIT under `archives` (C19; C06 caught it as it stood), two ignore files on one ancestor chain
(C20). Two of these were plainly holes in what the check compared rather than in what it generated (C17, C16's
don't-care range); the rest were unexplored corners of the input space.

Re-judging on the tree as repaired (after some ninety `fix:` commits; `python3-vt -m fsv.seedall`, results in
`sensitivity/seedall-*.json`): 42 of the 60 patches still applied and all but two of them were caught by the
search-only quick checks; the two that "held" (`C02-v2-shared-operand-map`, `C05-v2-date-before-numeric-key`) are
neutralised by later repairs (7306c0f keeps literals out of the per-row map; 9b74d0e types an ORDER BY key by its whole
expression) - with them applied the property really holds now. The 16 patches that no longer applied were ported by hand
to the current code (same fault, same place or its nearest successor; originals kept beside them) and judged again: 15
caught as the checks stood, one missed (`C19-member-error-aborts-directory`, see its row) and caught after C19's
corruption enumeration was extended.

A second full re-judging (at d3f92c0, after the second audit round's repairs; `sensitivity/seedall-d3f92c0.json`) showed
why this has to be repeated: seven more patches had stopped applying or been neutralised by the day's repairs (ported
again, all caught), and one change - `C20-v3-ignore-test-skipped-above-mindepth` - that had been "caught" was no longer:
its detection had depended on a single lucky draw. A shape a check is meant to catch needs a generator branch of its
own; C20 has one now, and the change is caught under five seeds.

Round 6 (on the final repaired tree 0837add, five used-up sites per property; `sensitivity/seedall-round6.json`): 20
changes, 14 caught as the checks stood (C01, C02, C05, C06, C07, C08, C10, C12, C13, C14, C15, C16, C19, C20), 6 missed
and caught after strengthening: ordering operators over a text column that holds the empty text (C03 - every entry of
its fixed tree had had an extension), `ext` of an archive member below a dotted directory (given for C04, caught by C19,
which now asserts the member's `ext`), group rows ordered by a key that is not displayed (C09 - grouped cases were never
ordered), a leading NOT directly in front of `not like` / `not rx` (C11 - a leading NOT had always been followed by a
bracket), `sha256` of an entry that cannot be opened (C17 - only `sha1` was selected), two `symlinks` roots whose walks
meet (C18 - one root per query). Five of the six are enumerated cases now; C09's is a generator branch taken by four of
five grouped cases. While extending C03's fixed tree, `size >= ext` with an empty `ext` came up as "neither side":
that is the no-value rule as designed (an empty text on the right of a numeric comparison is no value), so the atom now
uses `path`; nothing about it was ever committed as an alarm.

Over the six rounds: 120 changes, 75 caught by the checks as they stood at the time, 45 missed and all 45 caught after
a generator or oracle extension; no check was loosened, and every extension was re-run on the unchanged tree.
"""


def main():
    rows = []
    for d in sorted(glob.glob(os.path.join(VERIF, "seeded", "*"))):
        mf = os.path.join(d, "meta.json")
        if not os.path.exists(mf):
            continue
        m = json.load(open(mf))
        esc = lambda t: t.replace("|", "\\|").replace("\n", " ")
        rows.append("| `%s` | %s | %s | %s |" % (os.path.basename(d), m["property"], esc(m["needs_to_manifest"]), esc(m["detection"] + ((" **Later:** " + m["ported"]) if m.get("ported") else "") + ((" **Later:** " + m["neutralised"]) if m.get("neutralised") else ""))))
    text = INTRO + "\n".join(rows) + "\n" + SUMMARY
    p = os.path.join(VERIF, "DESIGN.md")
    s = open(p).read()
    i = s.index("### 12.6 Seeded changes")
    m = re.search(r"\n##+ ", s[i + 10:])
    j = i + 10 + m.start() + 1 if m else len(s)
    open(p, "w").write(s[:i] + text + s[j:])
    print("DESIGN.md 12.6: %d seeded changes" % len(rows))


if __name__ == "__main__":
    main()
