"""Reference for date literals (usage.md, 'Date and time specifiers'): a literal written to day, hour,
minute or second precision denotes the closed interval of local-time seconds it covers."""
import datetime
import re

_RX = re.compile(r"^(\d{4})[-:](\d{1,2})[-:](\d{1,2})(?: (\d{1,2})(?::(\d{1,2})(?::(\d{1,2}))?)?)?$")


def interval(lit):
    """(a, b) as naive local datetimes, or None when the text is not in the documented format."""
    m = _RX.match(lit)
    if not m:
        return None
    y, mo, d = int(m.group(1)), int(m.group(2)), int(m.group(3))
    h, mi, s = m.group(4), m.group(5), m.group(6)
    try:
        a = datetime.datetime(y, mo, d, int(h) if h else 0, int(mi) if mi else 0, int(s) if s else 0)
        b = datetime.datetime(y, mo, d, int(h) if h else 23, int(mi) if mi else 59, int(s) if s else 59)
    except ValueError:
        return None
    return a, b


def holds(op, t, a, b):
    """t: naive local datetime of the entry; [a, b] the literal's interval."""
    if op in ("=", "==", "eq"):
        return a <= t <= b
    if op in ("!=", "<>", "ne"):
        return not (a <= t <= b)
    if op in ("<", "lt"):
        return t < a
    if op in (">", "gt"):
        return t > b
    if op in ("<=", "lte", "le"):
        return t <= b
    if op in (">=", "gte", "ge"):
        return t >= a
    raise KeyError(op)
