"""Direct wildcard matcher (no regex translation): whole-string, ASCII-case-insensitive;
`many` matches any run of characters (including none), `one` exactly one character; every other
character matches only itself."""


def _lower(c):
    # ASCII plus the simple one-to-one case pairs of the few non-ASCII letters the generators use (e-acute,
    # z-acute, ...): Rust's regex (?i) folds those too. Characters with multi-character mappings keep themselves.
    l = c.lower()
    return l if len(l) == 1 and len(c.upper()) == 1 else c


def wild_match(pattern, subject, many, one):
    p = [_lower(c) for c in pattern]
    s = [_lower(c) for c in subject]
    # iterative glob matching with backtracking on the last `many`
    pi = si = 0
    star = -1
    mark = 0
    while si < len(s):
        if pi < len(p) and p[pi] == many:
            star = pi
            mark = si
            pi += 1
        elif pi < len(p) and (p[pi] == one or p[pi] == s[si]) and p[pi] != many:
            pi += 1
            si += 1
        elif star >= 0:
            pi = star + 1
            mark += 1
            si = mark
        else:
            return False
    while pi < len(p) and p[pi] == many:
        pi += 1
    return pi == len(p)


def glob_match(pattern, subject):
    return wild_match(pattern, subject, "*", "?")


def like_match(pattern, subject):
    return wild_match(pattern, subject, "%", "_")


def is_glob(pattern):
    return "*" in pattern or "?" in pattern
