"""Build the fselect release binary from /repo's *current working tree* into /verif/.target.

Exit status 2 (infrastructure) when the build fails - never reported as a violation.
Also builds the small LD_PRELOAD clock shim used by C13 (controlled clock).
"""
import os
import subprocess
import sys
import fcntl

REPO = os.environ.get("FSV_REPO", "/repo")
VERIF = os.path.dirname(os.path.dirname(os.path.abspath(__file__)))
TARGET = os.environ.get("FSV_TARGET") or os.path.join(VERIF, ".target")
BINARY = os.path.join(TARGET, "release", "fselect")
SHIM_SRC = os.path.join(VERIF, "fsv", "clockshim.c")
SHIM_SO = os.path.join(TARGET, "clockshim.so")


def _env():
    env = dict(os.environ)
    env.update(
        CARGO_NET_OFFLINE="true",
        CARGO_TARGET_DIR=TARGET,
        CARGO_PROFILE_RELEASE_LTO="off",
        CARGO_PROFILE_RELEASE_CODEGEN_UNITS="16",
        CARGO_TERM_COLOR="never",
    )
    # hooks: none are needed (MANIFEST.hooks); the guard cfg is passed anyway so that a hook
    # added later is compiled in by the checks.
    flags = env.get("RUSTFLAGS", "")
    if "fselect_verif" not in flags:
        env["RUSTFLAGS"] = (flags + " --cfg fselect_verif").strip()
    return env


def build(quiet=True):
    """Return the path of the freshly built binary; exit(2) when cargo fails."""
    os.makedirs(TARGET, exist_ok=True)
    lock = open(os.path.join(TARGET, ".fsv-build.lock"), "w")
    fcntl.flock(lock, fcntl.LOCK_EX)
    try:
        p = subprocess.run(
            ["cargo", "build", "--release", "--offline"],
            cwd=REPO, env=_env(), stdout=subprocess.PIPE, stderr=subprocess.STDOUT,
        )
        if p.returncode != 0:
            sys.stdout.write(p.stdout.decode("utf-8", "replace")[-4000:])
            print("fsv.build: cargo build failed (infrastructure error, not a violation)")
            sys.exit(2)
        if not quiet:
            sys.stdout.write(p.stdout.decode("utf-8", "replace")[-600:])
        build_shim()
    finally:
        fcntl.flock(lock, fcntl.LOCK_UN)
        lock.close()
    return BINARY


def build_shim():
    """clock_gettime/time/gettimeofday override: FSV_FAKE_EPOCH=<seconds> fixes CLOCK_REALTIME."""
    try:
        if os.path.exists(SHIM_SO) and os.path.getmtime(SHIM_SO) >= os.path.getmtime(SHIM_SRC):
            return SHIM_SO
        p = subprocess.run(
            ["cc", "-shared", "-fPIC", "-O1", "-o", SHIM_SO, SHIM_SRC, "-ldl"],
            stdout=subprocess.PIPE, stderr=subprocess.STDOUT,
        )
        if p.returncode != 0:
            sys.stderr.write("fsv.build: clock shim not built: %s\n" % p.stdout.decode()[-500:])
            return None
        return SHIM_SO
    except OSError as e:
        sys.stderr.write("fsv.build: clock shim not built: %s\n" % e)
        return None


if __name__ == "__main__":
    b = build(quiet=False)
    print("built", b)
