"""Regenerates /verif/MANIFEST.json from the table below (run: python3-vt -m fsv.manifest)."""
import json
import os

VERIF = os.path.dirname(os.path.dirname(os.path.abspath(__file__)))

# id -> (level category, technique, level text, level note, design ref)
CHECKS = {
    "C01": ("exploration",
            "property-based testing (Hypothesis): generated trees x root lists x depth windows x bfs/dfs, "
            "differential against a spec-derived reference walk, bfs/dfs metamorphic relation",
            "Generated-input search over (tree, roots, mindepth/maxdepth, bfs|dfs): the row multiset of the real "
            "binary on a real directory tree must equal the model's (both directions: nothing missing, extra or "
            "twice), bfs rows are level-ordered, dfs subtrees contiguous, roots in order. Sampling with measured "
            "class coverage, not a proof.",
            "Trusts Python's os module to create the tree it was asked to create and ext4 on /tmp; sibling order "
            "is don't-care; roots are disjoint; `/` and `~name` roots are searched inside a chroot jail, several file "
            "systems below one root are tmpfs mounts in a private mount namespace (skipped where unshare is unavailable).",
            "DESIGN.md 4 C01; later additions: DESIGN.md 12.8"),
    "C10": ("exploration",
            "property-based testing / grammar-based fuzzing (Hypothesis) of argument vectors with a validity-predicate "
            "oracle; closed sub-classes enumerated exhaustively",
            "Generated argvs of five classes (token soups, mutated valid queries, every function with ill-typed "
            "arguments, ill-typed literals, malformed-by-construction) run on the real binary in a chroot jail: "
            "must terminate within 10 CPU-seconds with status 0/1/2, never print `panicked at`, give status 2 + "
            "diagnostic for classes iv/v, and print no row after a `query:` rejection. Finds crashes/hangs in the "
            "sampled space; cannot prove totality.",
            "Hang = SIGXCPU after 10 CPU-seconds on a 15-entry tree; interactive mode gets EOF; FIFOs excluded; "
            "which well-formed-looking soups parse is not asserted.",
            "DESIGN.md 4 C10; later additions: DESIGN.md 12.8"),
    "C15": ("exploration",
            "property-based testing (Hypothesis): generated expression ASTs, differential against an f64 reference "
            "evaluator plus metamorphic column-independence and WHERE-vs-own-value relations",
            "Generated arithmetic expressions (depth <= 4, symbols and word operators, brackets, unary minus, scalar "
            "calls) in select lists of 1..5 columns with deliberately confusable neighbours: every printed cell must "
            "equal the reference value, be identical alone / in company / in reversed order, and `where e OP c` must "
            "select exactly the entries whose own printed value satisfies it. Sampling, not proof.",
            "Reference evaluator is IEEE f64 in Python (math.fmod, math.pow), relative tolerance 1e-12; division by "
            "zero, |v| > 2^50 and `-(...)` are outside the generated domain.",
            "DESIGN.md 4 C15; later additions: DESIGN.md 12.8"),
    "C02": ("exploration",
            "property-based testing (Hypothesis): generated attribute-rich trees x atomic conditions, differential "
            "against a reference predicate evaluated on lstat-observed attributes",
            "For every generated tree and 12 generated atoms (numeric incl. unit literals, text with =/glob/like/"
            "strict/regex, boolean incl. bare form, date intervals, BETWEEN, column-vs-column, quoted reserved words) "
            "the set of returned paths must equal the set of entries for which the documented meaning holds - both "
            "over- and under-selection are reported with the (type, column, operator) in the signature.",
            "Python's os.lstat/re and the small glob/date references are trusted; TZ=UTC; undocumented combinations "
            "(ordering on booleans) are not generated; a column without a value satisfies only != and a literal that is "
            "no number is status 2 (DESIGN.md 12.8).",
            "DESIGN.md 4 C02; later additions: DESIGN.md 12.8"),
    "C03": ("exploration",
            "property-based testing (Hypothesis) with a metamorphic set-algebra oracle over fselect's own atom "
            "results; bounded-exhaustive enumeration of formula shapes",
            "S(formula) is compared with the intersection/union/complement combination of S(atom) obtained from the "
            "same binary on the same tree; all shapes with <= 2 connectives (quick) / <= 3 (thorough) x and/or x leaf "
            "assignment x every `not` placement are enumerated on a truth-table tree with boundary entries; random "
            "formulas to depth 5 on generated trees; infix `not like`/`not between` complement laws.",
            "Atom semantics are taken from fselect itself (C02 checks them); complement relative to the unfiltered "
            "listing; only always-present columns.",
            "DESIGN.md 4 C03; later additions: DESIGN.md 12.8"),
    "C05": ("exploration",
            "property-based testing (Hypothesis): generated trees with ties x key lists; permutation (multiset) "
            "round-trip against the unordered query and a typed pairwise sortedness invariant; the wall clock is a "
            "generated input (LD_PRELOAD clock shim)",
            "For each generated (tree, select list, WHERE, 1..3 keys with directions, positional or explicit, "
            "selected or not) the ordered rows must be a permutation of the unordered rows and every consecutive pair "
            "must be non-decreasing under integers-numeric / dates-chronological / text-bytewise comparison, with "
            "desc reversed per key. Both directions (nothing lost or invented, order correct) are checked.",
            "Key cells come from a separate unordered run of the same binary joined on path; ties unordered; "
            "negative/fractional keys and keys starting with a literal are outside the generated domain.",
            "DESIGN.md 4 C05; later additions: DESIGN.md 12.8"),
    "C06": ("exploration",
            "property-based testing (Hypothesis) with per-pair exhaustive enumeration of N in 1..M+2; metamorphic "
            "oracle against the unlimited result of the same query",
            "For each generated (tree, query) pair every N in 1..M+2, `limit 0` and no limit are run: exact row "
            "count min(N, M), sub-multiset of the unlimited rows, and with ORDER BY the typed key sequence must equal "
            "the first N keys of the sorted unlimited result (ties at the cut may resolve either way); archives with "
            "members larger and smaller than every file, several roots, bfs/dfs, WHERE.",
            "The unlimited output of the same binary is the reference (its own correctness is C01/C02/C05/C19).",
            "DESIGN.md 4 C06; later additions: DESIGN.md 12.8"),
    "C07": ("exploration",
            "property-based testing (Hypothesis): metamorphic (aggregate query vs. the same query without aggregates) "
            "plus an exact Fraction / float reference for the nine aggregate functions",
            "The multiset of inner values comes from fselect's own non-aggregate run; the aggregate run must print "
            "exactly one row whose COUNT/SUM/MIN/MAX are exact integers, AVG = SUM/COUNT to 1e-12 and the four "
            "variance/deviation functions match the textbook formulas to 1e-9, for n = 0, 1, 2, many, fractional "
            "means and sums above 2^32.",
            "Empty-set MIN/MAX/AVG/variance and single-value sample variance are don't-care; Python Fraction/math "
            "are the trusted arithmetic.",
            "DESIGN.md 4 C07; later additions: DESIGN.md 12.8"),
    "C08": ("exploration",
            "property-based testing (Hypothesis): model partition of fselect's own ungrouped rows, conservation laws "
            "against the ungrouped aggregate query, restriction metamorphic relation (`where key = value`), "
            "sortedness of group rows",
            "Key-tuple set equality (one row per distinct key, none twice), per-group aggregates against the C07 "
            "reference over the model partition, sum of group COUNT/SUM == ungrouped COUNT/SUM, a sample of groups "
            "re-obtained by restricting the ungrouped query, and ORDER BY over a selected key or integer aggregate.",
            "Group order without ORDER BY, ORDER BY on unselected or non-integer columns and restriction on empty "
            "key values are not asserted.",
            "DESIGN.md 4 C08; later additions: DESIGN.md 12.8"),
    "C09": ("exploration",
            "property-based testing (Hypothesis): round-trip / differential decoding of json, csv, html, tabs, lines "
            "output against the NUL-separated `into list` output of the same query",
            "Tables from all four result paths with adversarial values and rows above 8 KiB and 64 KiB are requested "
            "in every format and decoded with independent parsers (json, csv strict mode, a strict HTML grammar with "
            "entity check): each must be well-formed and decode to exactly the rows of `into list` (sequence on the "
            "ordered path, multiset elsewhere).",
            "Python's json/csv/html modules are the reference decoders; JSON member order, CSV terminator and "
            "colours are don't-care; tabs/lines only when no value contains the separator.",
            "DESIGN.md 4 C09; later additions: DESIGN.md 12.8"),
    "C12": ("exploration",
            "property-based testing (Hypothesis): generated names over a metacharacter alphabet x derived patterns, "
            "differential against a direct recursive wildcard matcher / exact comparison / Python re; metamorphic "
            "cache probe",
            "Every generated (name set, operator, pattern) is run on the real binary in a real directory and compared "
            "with a reference that never translates to regex; negative operators must be exact complements; the same "
            "pattern text under two operator families in one query must behave as each family alone.",
            "ASCII names; `=` without wildcard is exact; Python re and Rust regex agree on the small regex subset used.",
            "DESIGN.md 4 C12; later additions: DESIGN.md 12.8"),
    "C13": ("exploration",
            "property-based testing (Hypothesis): generated literals x time zones x spellings against an interval "
            "reference, algebraic laws (trichotomy, unions, complement) on the binary's own answers, relative literals "
            "under a controlled clock (LD_PRELOAD clock shim)",
            "For each literal the tree holds files exactly on and one second around both interval edges; all eight "
            "operators and BETWEEN must select exactly the files the documented interval semantics selects, <, =, > "
            "must partition the files, and `modified` must print local time. today/yesterday/signed offsets are "
            "checked with the process clock pinned to chosen local days (incl. DST days, midnight, 23:59:59).",
            "zoneinfo/tzdata is the local-time reference; === / !== only at second precision; English dates excluded.",
            "DESIGN.md 4 C13; later additions: DESIGN.md 12.8"),
    "C14": ("exploration",
            "exhaustive enumeration of the unit table (all suffixes x letter cases x numbers x operators) plus "
            "property-based testing (Hypothesis) of the format specifier grammar with label/spacing/decimals "
            "predicates, monotonicity and parse-back round trip",
            "Literals: every documented unit in every letter case, integer and fractional numbers, compared against "
            "sparse files one byte below/at/above the denoted size. Formatting: generated specifier strings x a "
            "logarithmic size grid: documented table verbatim, unit label/spacing/decimals per grammar, monotone in "
            "size, parse-back within half a unit of the last digit; fsize with default_file_size_format equals "
            "format_size with the same specifier.",
            "Rounding mode, automatic unit choice, units p/e and undocumented flag/unit combinations are don't-care.",
            "DESIGN.md 4 C14; later additions: DESIGN.md 12.8"),
    "C16": ("exploration",
            "property-based testing (Hypothesis): typed argument generators per function, differential against a Python "
            "reference per documented function, composition through the reference, base64 round-trip law",
            "Up to six generated calls per run (nesting depth <= 3, literals and name/ext/size/modified of generated "
            "entries, non-ASCII and whitespace-run arguments, boundary positions for SUBSTR, overlapping REPLACE "
            "needles, month/year-end dates) are compared cell by cell with the reference; numeric results to 1e-12.",
            "Python's str/base64/math/datetime are the reference; unasserted corners (BIN of negatives, SUBSTR 0/out of "
            "range, FORMAT_TIME wording) are don't-care with a weaker substring/seconds predicate.",
            "DESIGN.md 4 C16; later additions: DESIGN.md 12.8"),
    "C04": ("exploration",
            "exhaustive enumeration (4096 permission values on disk and x 7 types as zip modes; 41 capabilities x 6 "
            "flag sets; every extension list overridden) plus property-based testing (Hypothesis) of metadata trees "
            "and file contents against os.lstat, pwd/grp, listxattr, hashlib",
            "Every selected column of every entry is compared with an independent observation of the same entry: "
            "mode string and all permission/type booleans for the complete 16-bit domain, owners, links, blocks, "
            "times, xattrs, decoded capabilities (cross-checked with getcap), location decomposition laws, extension "
            "classes under default and overridden configuration, digests / line counts / shebang / contains for "
            "contents at buffer boundaries.",
            "Python's os/stat/hashlib/pwd/grp and getcap are trusted; heuristic columns (mime, is_text) and "
            "created/accessed/device are not asserted.",
            "DESIGN.md 4 C04; later additions: DESIGN.md 12.8"),
    "C17": ("fault_enumeration",
            "fault injection over generated trees (Hypothesis): every single-directory permission fault position, file "
            "read faults, dangling links, run as uid 65534, differential against the fault-free control run; enumerated "
            "close offsets of a 4 KiB stdout pipe for 6 formats x 4 result paths",
            "For each generated tree every directory is made unlistable in turn (thorough: subsets of <= 3): rows "
            "outside the fault must equal the control run's, the failing path must be named on stderr and the status "
            "be 1, while the control run is clean (0, empty stderr). Unreadable files keep their row and metadata, "
            "lose only content cells, and leave other rows and aggregates intact. For the output side the reader "
            "closes after exactly K bytes (or before exec): the child must end by itself with status 0/1, no panic.",
            "Faults are permission faults (chmod 000) seen by an unprivileged process; exit status for file-only "
            "faults may be 0 or 1; message wording is free.",
            "DESIGN.md 4 C17; later additions: DESIGN.md 12.8"),
    "C18": ("exploration",
            "property-based testing (Hypothesis): generated link graphs (relative/absolute, cycles, chains, outside "
            "targets) in a chroot jail, differential against an independent closure model over real directories; "
            "termination by CPU-time limit",
            "Each row is mapped to its real entry (independent resolver); the multiset of real entries must equal the "
            "closure of the root under sub-directories and directory links, each exactly once (nothing missing, "
            "nothing twice, nothing from outside); the run must terminate and be clean when no link is dangling or "
            "self-referential; without the option the rows equal the plain walk.",
            "Displayed path spelling, status with dangling/looping links and depth windows under `symlinks` are "
            "don't-care; the jail bounds any mis-resolution.",
            "DESIGN.md 4 C18; later additions: DESIGN.md 12.8"),
    "C19": ("exploration",
            "property-based testing (Hypothesis): generated trees with zip archives, differential against (same query "
            "without `archives`) + Python zipfile member model; top-N metamorphic relation; exhaustive truncation and "
            "byte-flip fault enumeration of a small archive; pinned process clock",
            "Row multiset with `archives` must equal the on-disk rows of the same query plus exactly one model row "
            "per member of every searched archive (extension list incl. overrides and letter case, depth window), "
            "with size / directory flag / mode / stored time, under WHERE, ORDER BY + LIMIT and aggregates; damaged, "
            "empty, directory-named and unreadable archives never crash, hang, or cost other rows.",
            "Python's zipfile is the reference reader; member rows of damaged archives are only required for "
            "truncations that zipfile still reads identically; unavailable columns are not asserted.",
            "DESIGN.md 4 C19; later additions: DESIGN.md 12.8"),
    "C20": ("exploration",
            "property-based testing (Hypothesis): generated trees x ignore files x root spellings x switch sources; "
            "differential against `git check-ignore` (git) and reference matchers written from the tools' "
            "documentation (hg, docker); metamorphic switch-off relation",
            "Rows with the switch on must equal the unfiltered listing minus exactly the entries that the tool's "
            "rules ignore (directly or through an ignored ancestor); with the switch off, or overridden by no..., "
            "the listing must be unfiltered even though ignore files exist; roots `.`, `./`, relative and absolute "
            "sub-directories, cwd below the repository root; option, alias, configuration default, override.",
            "git itself is the git oracle; the hg/docker references are a reading of their documentation for the "
            "generated pattern subset; one open known finding (libgit2 negation heuristic) is matched by signature.",
            "DESIGN.md 4 C20; later additions: DESIGN.md 12.8"),
    "C11": ("exploration",
            "property-based testing (Hypothesis) with a metamorphic oracle on the parsed query (dbg! output under "
            "`debug = true`), rows and status; exhaustive one-at-a-time enumeration of the documented alias tables",
            "Every rendering of a generated valid query - argument splits, letter case, aliases of operators / columns "
            "/ functions / aggregates / root options / arithmetic words / formats, optional select / commas / asc / "
            "() / bracket style / trailing FROM - must produce the identical parsed Query, rows and exit status as the "
            "canonical one-argument rendering; every alias in the documentation's tables is substituted one at a time.",
            "The parsed query is read from the debug output; one open known finding (a root word sharing its shell "
            "word with following tokens) is excluded by construction, counted, and watched by its pinned case.",
            "DESIGN.md 4 C11; later additions: DESIGN.md 12.8"),
}

PENDING = {}


def main():
    props = [json.loads(l) for l in open(os.path.join(VERIF, "properties.jsonl"))]
    checks = []
    na = []
    for p in props:
        pid = p["id"]
        if pid in CHECKS:
            cat, tech, text, note, ref = CHECKS[pid]
            checks.append({
                "property_id": pid,
                "quick_cmd": "python3-vt -m fsv.check %s --tier quick" % pid,
                "thorough_cmd": "python3-vt -m fsv.check %s --tier thorough" % pid,
                "evidence_file": "/verif/evidence/%s.json" % pid,
                "replay_cmd_template": "python3-vt -m fsv.check %s --replay {path}" % pid,
                "engine": "fsv",
                "level_claimed": {"category": cat, "text": text, "design_ref": ref},
                "level_note": note,
                "technique": tech,
            })
        else:
            na.append({"property_id": pid,
                       "reason": PENDING.get(pid, "check not built yet (work in progress; the technique applies, see DESIGN.md 4)")})
    man = {
        "version": 1,
        "setup_cmd": "cd /verif && python3-vt -m fsv.build && python3-vt -m fsv.fuzzrun --build",
        "hooks": {
            "guard": "fselect_verif",
            "enable": "RUSTFLAGS='--cfg fselect_verif' is passed by fsv.build (release binary) and by fsv.fuzzrun (cargo fuzz build). One hook: "
                      "util::error_exit unwinds with a VerifExit payload instead of exiting when the environment variable "
                      "FSELECT_VERIF_EXIT_UNWINDS is set - only the in-process fuzz target eval_total sets it, so the release binary "
                      "the process-level checks drive behaves exactly like an unhooked build",
            "baseline_off_cmd": "cd /repo && cargo test --workspace --no-fail-fast --offline",
            "source_commits": ["8ed04a3c660d3505fbf230aaf64714eb73c406de"],
            "add_only": True,
        },
        "engines": [
            {"name": "fuzz", "path": "/verif/fuzz", "serves_properties": ["C10", "C11"],
             "kind_free_text": "cargo-fuzz / libFuzzer targets that #[path]-include /repo/src (parse_total: Parser::parse never panics or "
                               "hangs; eval_total: function::get_value on arbitrary function words and argument strings returns or rejects cleanly, "
                               "never panics; split_invariance: one argument vs split arguments parse identically); fixed -runs campaigns as a "
                               "supplement, every artifact re-judged on the real binary before it counts"},
            {"name": "fsv", "path": "/verif/fsv", "serves_properties": sorted(CHECKS),
             "kind_free_text": "Python/Hypothesis property-based testing engine driving the release binary built from "
                               "/repo's working tree against real directory trees; independent reference models; "
                               "shrunk failures become JSON replay files"},
        ],
        "checks": checks,
        "not_applicable": na,
        "notes": "All checks: python3-vt -m fsv.check <ID> --tier quick|thorough; VERIF_SEED honoured; exit 0/1/2 as in DESIGN.md 9.",
    }
    with open(os.path.join(VERIF, "MANIFEST.json"), "w") as f:
        json.dump(man, f, indent=1)
    print("MANIFEST.json: %d checks, %d not claimed" % (len(checks), len(na)))


if __name__ == "__main__":
    main()
