"""Known-findings file: read-only at run time (DESIGN.md 2.7)."""
import json
import os

PATH = os.path.join(os.path.dirname(os.path.dirname(os.path.abspath(__file__))), "known_findings.json")


def load():
    if not os.path.exists(PATH):
        return []
    with open(PATH) as f:
        return json.load(f)["findings"]


def open_for(prop):
    return [f for f in load() if f["property"] == prop and f["status"] == "open"]


def open_signatures(prop):
    return {f["signature"] for f in open_for(prop)}
