"""CLI: python3-vt -m fsv.check <ID> --tier quick|thorough [--replay FILE]

exit 0: property held on everything explored (KNOWN-FINDING lines possible)
exit 1: VIOLATION property=<id> replay=<path>
exit 2: infrastructure / inconclusive
"""
import argparse
import os
import sys

from . import engine


def main():
    ap = argparse.ArgumentParser()
    ap.add_argument("pid")
    ap.add_argument("--tier", default=os.environ.get("VERIF_TIER", "quick"), choices=["quick", "thorough"])
    ap.add_argument("--replay")
    ap.add_argument("--seed", type=int, default=None)
    ap.add_argument("--survey", type=int, default=0)
    a = ap.parse_args()
    seed = a.seed if a.seed is not None else int(os.environ.get("VERIF_SEED", "0") or 0)
    pid = a.pid.upper()
    if a.survey:
        sys.exit(engine.survey(pid, a.tier, seed, a.survey))
    if a.replay:
        sys.exit(engine.replay(pid, a.replay))
    sys.exit(engine.run_check(pid, a.tier, seed))


if __name__ == "__main__":
    main()
