"""Regenerate the table of defects repaired during the audit round (DESIGN.md 12.7) from fsv/kf.py and /repo's history.

    python3-vt -m fsv.fixtable
"""
import os
import subprocess

from . import kf

VERIF = os.path.dirname(os.path.dirname(os.path.abspath(__file__)))
BEGIN, END = "<!-- audit-fixes:begin -->", "<!-- audit-fixes:end -->"
FIRST = "b34e293"          # the first repair of the audit round


def main():
    log = subprocess.run(["git", "-C", "/repo", "log", "--reverse", "--format=%h\t%s"], stdout=subprocess.PIPE).stdout.decode().splitlines()
    order = [l.split("\t")[0] for l in log]
    subj = dict(l.split("\t", 1) for l in log)
    start = next(i for i, h in enumerate(order) if h.startswith(FIRST) or FIRST.startswith(h))
    rows = []
    for h in order[start:]:
        ent = [e for e in kf.FIXED if e[1].startswith(h[:7]) or h.startswith(e[1][:7])]
        if not ent:
            continue
        for prop, commit, what, _ in ent:
            rows.append("| %s | %s | %s | %s |" % (commit, prop, subj[h][5:].strip() if subj[h].startswith("fix:") else subj[h], what.replace("|", "\\|")))
    text = BEGIN + "\n| Commit | Property | Repair | What failed, and what the check had been missing |\n|---|---|---|---|\n" + "\n".join(rows) + "\n" + END
    p = os.path.join(VERIF, "DESIGN.md")
    s = open(p).read()
    if BEGIN in s:
        s = s[:s.index(BEGIN)] + text + s[s.index(END) + len(END):]
    else:
        raise SystemExit("marker not found in DESIGN.md")
    open(p, "w").write(s)
    print("DESIGN.md 12.7: %d repairs listed" % len(rows))


if __name__ == "__main__":
    main()
