"""Reference semantics shared by the property modules (DESIGN.md 3.3). Independent of fselect's code:
everything is derived from os.lstat of the materialised tree and from the usage document."""
import datetime
import os
import stat
import zoneinfo


class Entry:
    __slots__ = ("rel", "name", "path", "st", "level", "kind", "abspath")

    def __init__(self, rel, path, st, abspath):
        self.rel = rel
        self.name = rel[-1]
        self.path = path          # displayed path: <root text>/<rel>
        self.st = st
        self.level = len(rel)
        self.abspath = abspath
        m = st.st_mode
        self.kind = ("d" if stat.S_ISDIR(m) else "l" if stat.S_ISLNK(m) else "f" if stat.S_ISREG(m) else
                     "p" if stat.S_ISFIFO(m) else "s" if stat.S_ISSOCK(m) else "c" if stat.S_ISCHR(m) else "b")


def join(root, rel):
    return (root if root.endswith("/") else root + "/") + "/".join(rel)


def observe(base, root_text=".", follow=False):
    """All entries below `base` (not following symlinks), with lstat results: the observation the
    oracles work from (never the intention recorded in the spec)."""
    out = []

    def rec(d, rel):
        try:
            names = sorted(os.listdir(d))
        except OSError:
            return
        for n in names:
            p = os.path.join(d, n)
            st = os.lstat(p)
            r = rel + (n,)
            out.append(Entry(r, join(root_text, r), st, p))
            if stat.S_ISDIR(st.st_mode):
                rec(p, r)
    rec(base, ())
    return out


def rust_extension(name):
    """std::path::Path::extension of a file name."""
    if name == "..":
        return ""
    i = name.rfind(".")
    if i <= 0:
        return ""
    return name[i + 1:]


def parent_text(path):
    """std::path::Path::parent as text for the displayed paths the harness generates."""
    p = path.rstrip("/")
    i = p.rfind("/")
    if i < 0:
        return ""
    if i == 0:
        return "/"
    return p[:i].rstrip("/") or "/"


def local_dt(epoch, tz):
    return datetime.datetime.fromtimestamp(epoch, zoneinfo.ZoneInfo(tz)).replace(tzinfo=None)


def fmt_dt(epoch, tz):
    return local_dt(epoch, tz).strftime("%Y-%m-%d %H:%M:%S")


def column(e, col, tz="UTC"):
    """Expected text of an always-available column of an on-disk entry."""
    st = e.st
    if col == "name":
        return e.name
    if col == "path":
        return e.path
    if col == "ext":
        return rust_extension(e.name)
    if col == "dir":
        return parent_text(e.path)
    if col == "size":
        return str(st.st_size)
    if col == "uid":
        return str(st.st_uid)
    if col == "gid":
        return str(st.st_gid)
    if col == "hardlinks":
        return str(st.st_nlink)
    if col == "inode":
        return str(st.st_ino)
    if col == "blocks":
        return str(st.st_blocks)
    if col == "mode":
        return stat.filemode(st.st_mode)
    if col == "modified":
        return fmt_dt(int(st.st_mtime), tz)
    if col == "is_dir":
        return b(e.kind == "d")
    if col == "is_file":
        return b(e.kind == "f")
    if col == "is_symlink":
        return b(e.kind == "l")
    if col == "is_pipe":
        return b(e.kind == "p")
    if col == "is_socket":
        return b(e.kind == "s")
    if col == "is_char":
        return b(e.kind == "c")
    if col == "is_block":
        return b(e.kind == "b")
    if col == "is_hidden":
        return b(e.name.startswith("."))
    if col == "length(name)":
        return str(len(e.name))
    bits = {"user_read": 0o400, "user_write": 0o200, "user_exec": 0o100, "group_read": 0o40,
            "group_write": 0o20, "group_exec": 0o10, "other_read": 0o4, "other_write": 0o2,
            "other_exec": 0o1, "suid": 0o4000, "sgid": 0o2000}
    if col in bits:
        return b(st.st_mode & bits[col] != 0)
    if col in ("user_all", "group_all", "other_all"):
        m = {"user_all": 0o700, "group_all": 0o70, "other_all": 0o7}[col]
        return b(st.st_mode & m == m)
    raise KeyError(col)


def b(x):
    return "true" if x else "false"
