"""Hermetic execution of the fselect binary (DESIGN.md 2.2)."""
import atexit
import hashlib
import os
import resource
import shutil
import signal
import subprocess
import tempfile
import time

from . import build as _build

BINARY = _build.BINARY
CPU_LIMIT_S = 10
WALL_LIMIT_S = 60

_scratch = None


def scratch_root():
    """Per-process scratch directory under /tmp, removed at exit."""
    global _scratch
    if _scratch is None or not os.path.isdir(_scratch) or _scratch_pid != os.getpid():
        _make_scratch()
    return _scratch


_scratch_pid = None


def _make_scratch():
    global _scratch, _scratch_pid
    # a forked pool worker never runs atexit handlers: nest its scratch inside the parent's, which does
    parent = _scratch if (_scratch and os.path.isdir(_scratch)) else "/tmp"
    _scratch = tempfile.mkdtemp(prefix="fsv-", dir=parent)
    os.chmod(_scratch, 0o755)
    _scratch_pid = os.getpid()
    os.makedirs(os.path.join(_scratch, "home"), exist_ok=True)
    os.chmod(os.path.join(_scratch, "home"), 0o755)
    atexit.register(_cleanup, _scratch, _scratch_pid)


def _cleanup(path, pid):
    if os.getpid() == pid:
        rmtree(path)


def rmtree(path):
    """Remove a tree even when it contains unreadable directories."""
    if not os.path.lexists(path):
        return
    for _ in range(3):
        try:
            shutil.rmtree(path)
            return
        except OSError:
            for dp, dn, fn in os.walk(path):
                try:
                    os.chmod(dp, 0o700)
                except OSError:
                    pass
    shutil.rmtree(path, ignore_errors=True)


def new_case_dir():
    d = tempfile.mkdtemp(prefix="c", dir=scratch_root())
    os.chmod(d, 0o755)
    return d


def config_home(cfg_text):
    """Directory to use as XDG_CONFIG_HOME for this config text (None = no config file at all).

    With no config file fselect would write a default one on exit; /dev/null/x can neither be
    read nor created, so the run stays configuration-free and leaves nothing behind."""
    if cfg_text is None:
        return "/dev/null/fsv-noconfig"
    h = hashlib.sha1(cfg_text.encode()).hexdigest()[:16]
    d = os.path.join(scratch_root(), "cfg", h)
    f = os.path.join(d, "fselect", "config.toml")
    if not os.path.exists(f):
        os.makedirs(os.path.dirname(f), exist_ok=True)
        with open(f + ".tmp", "w") as fh:
            fh.write(cfg_text)
        os.rename(f + ".tmp", f)
        for p in (os.path.join(scratch_root(), "cfg"), d, os.path.dirname(f)):
            os.chmod(p, 0o755)
        os.chmod(f, 0o644)
    return d


class Res:
    __slots__ = ("status", "out", "err", "sig", "cpu_timeout", "wall_timeout", "argv", "blocked")

    def __init__(self, status, out, err, sig, cpu_timeout, wall_timeout, argv):
        self.status = status
        self.out = out
        self.err = err
        self.sig = sig
        self.cpu_timeout = cpu_timeout
        self.wall_timeout = wall_timeout
        self.argv = argv
        self.blocked = ""

    @property
    def panicked(self):
        return b"panicked at" in self.err or self.status == 101

    def brief(self):
        return {
            "argv": self.argv,
            "status": self.status,
            "signal": self.sig,
            "stdout": self.out[:400].decode("utf-8", "replace"),
            "stderr": self.err[:400].decode("utf-8", "replace"),
        }


def _preexec(cpu):
    def f():
        resource.setrlimit(resource.RLIMIT_CPU, (cpu, cpu + 2))
        resource.setrlimit(resource.RLIMIT_CORE, (0, 0))
        os.setsid()
    return f


def base_env(cfg=None, tz="UTC", extra=None):
    env = {
        "PATH": "/usr/bin:/bin",
        "HOME": os.path.join(scratch_root(), "home"),
        "XDG_CONFIG_HOME": config_home(cfg),
        "NO_COLOR": "1",
        "RUST_BACKTRACE": "0",
        "TZ": tz,
        "LANG": "C.UTF-8",
    }
    if extra:
        env.update(extra)
    return env


def clock_env(epoch):
    """Environment that pins CLOCK_REALTIME of the child to `epoch` (see fsv/clockshim.c)."""
    if epoch is None:
        return {}
    return {"LD_PRELOAD": _build.SHIM_SO, "FSV_FAKE_EPOCH": str(int(epoch))}


def run(argv, cwd, cfg=None, tz="UTC", nobody=False, extra_env=None, cpu=CPU_LIMIT_S,
        wall=WALL_LIMIT_S, stdin=None, clock=None, wrap=None):
    """Run fselect with argv (list of str); returns Res. Never raises for fselect's own failures.
    wrap: command prefix that ends by exec-ing its remaining arguments (e.g. unshare -m sh -c '<mounts>; exec "$@"' sh)."""
    cmd = list(wrap or []) + [BINARY] + list(argv)
    if nobody:
        cmd = ["setpriv", "--reuid", "65534", "--regid", "65534", "--clear-groups"] + cmd
    env = base_env(cfg, tz, extra_env)
    if clock is not None:
        env.update(clock_env(clock))
    p = subprocess.Popen(
        cmd, cwd=cwd, env=env, stdin=subprocess.DEVNULL if stdin is None else stdin,
        stdout=subprocess.PIPE, stderr=subprocess.PIPE, preexec_fn=_preexec(cpu),
    )
    wall_to = False
    try:
        out, err = p.communicate(timeout=wall)
    except subprocess.TimeoutExpired:
        wall_to = True
        # what the process was doing when its time ran out: "257 ..." = sleeping inside openat (a FIFO without a
        # writer), "running" = computing. Lets a check tell a blocked open from a slow machine.
        # (read twice, a third of a second apart: only a process that sits in the very same call both times is blocked)
        try:
            with open("/proc/%d/syscall" % p.pid) as fh:
                blocked = fh.read().strip()
            time.sleep(0.3)
            with open("/proc/%d/syscall" % p.pid) as fh:
                if fh.read().strip() != blocked:
                    blocked = ""
        except OSError:
            blocked = ""
        try:
            os.killpg(p.pid, signal.SIGKILL)
        except OSError:
            pass
        out, err = p.communicate()
    rc = p.returncode
    sig = -rc if rc < 0 else None
    cpu_to = sig in (signal.SIGXCPU, signal.SIGKILL) and not wall_to
    res = Res(rc if rc >= 0 else None, out, err, sig, cpu_to, wall_to, list(argv))
    res.blocked = blocked if wall_to else ""
    return res


def rows(out, ncols):
    """Decode `into list` output: every value is NUL-terminated; chunk by the column count."""
    if not out:
        return []
    parts = out.split(b"\0")
    if parts and parts[-1] == b"":
        parts.pop()
    vals = [p.decode("utf-8", "surrogateescape") for p in parts]
    if ncols <= 0 or len(vals) % ncols != 0:
        raise ValueError("list output of %d values is not a multiple of %d columns" % (len(vals), ncols))
    return [tuple(vals[i:i + ncols]) for i in range(0, len(vals), ncols)]


# ---------------------------------------------------------------- chroot jail (C10 / C11 / C18 containment)

_JAIL_LIBS = None


def _needed_libs():
    global _JAIL_LIBS
    if _JAIL_LIBS is None:
        out = subprocess.run(["ldd", BINARY], stdout=subprocess.PIPE).stdout.decode()
        libs = []
        for line in out.splitlines():
            parts = line.split()
            for p in parts:
                if p.startswith("/") and os.path.exists(p):
                    libs.append(p)
        _JAIL_LIBS = libs
    return _JAIL_LIBS


def make_jail(populate=None):
    """Create a chroot jail under the process scratch dir holding the binary, its shared libraries, an
    empty /home, /cfg and a /dev/null that is a plain file. Returns the jail path. `populate(jail)` may
    add content (e.g. the fixed tree under /t). Inside the jail every path a generated query can name -
    `/`, `..`, `~`, absolute paths - is confined to a few dozen small files."""
    jail = tempfile.mkdtemp(prefix="jail", dir=scratch_root())
    os.chmod(jail, 0o755)
    for lib in _needed_libs():
        dst = jail + lib
        os.makedirs(os.path.dirname(dst), exist_ok=True)
        shutil.copy2(os.path.realpath(lib), dst)
    os.makedirs(jail + "/bin")
    shutil.copy2(BINARY, jail + "/bin/fselect")
    os.makedirs(jail + "/home")
    os.makedirs(jail + "/cfg")
    os.makedirs(jail + "/dev")
    open(jail + "/dev/null", "w").close()
    os.makedirs(jail + "/tmp")
    if populate:
        populate(jail)
    return jail


def jail_config(jail, cfg_text):
    if cfg_text is None:
        return "/dev/null/fsv-noconfig"
    h = hashlib.sha1(cfg_text.encode()).hexdigest()[:16]
    d = os.path.join(jail, "cfg", h, "fselect")
    if not os.path.exists(d + "/config.toml"):
        os.makedirs(d, exist_ok=True)
        with open(d + "/config.toml", "w") as fh:
            fh.write(cfg_text)
    return "/cfg/" + h


def run_jailed(jail, argv, cwd="/t", cfg=None, tz="UTC", cpu=CPU_LIMIT_S, wall=WALL_LIMIT_S, extra_env=None):
    env = {
        "PATH": "/bin", "HOME": "/home", "XDG_CONFIG_HOME": jail_config(jail, cfg), "NO_COLOR": "1",
        "RUST_BACKTRACE": "0", "TZ": tz, "LANG": "C.UTF-8",
    }
    if extra_env:
        env.update(extra_env)

    def pre():
        os.chroot(jail)
        os.chdir(cwd)
        resource.setrlimit(resource.RLIMIT_CPU, (cpu, cpu + 2))
        resource.setrlimit(resource.RLIMIT_CORE, (0, 0))
        os.setsid()

    p = subprocess.Popen(["/bin/fselect"] + list(argv), env=env,
                         stdin=subprocess.DEVNULL, stdout=subprocess.PIPE, stderr=subprocess.PIPE,
                         preexec_fn=pre)
    wall_to = False
    try:
        out, err = p.communicate(timeout=wall)
    except subprocess.TimeoutExpired:
        wall_to = True
        try:
            os.killpg(p.pid, signal.SIGKILL)
        except OSError:
            pass
        out, err = p.communicate()
    rc = p.returncode
    sig = -rc if rc < 0 else None
    cpu_to = sig in (signal.SIGXCPU, signal.SIGKILL) and not wall_to
    return Res(rc if rc >= 0 else None, out, err, sig, cpu_to, wall_to, list(argv))
