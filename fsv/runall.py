"""Run every registered check of a tier and print a one-line summary per property (developer helper)."""
import json
import os
import subprocess
import sys
import time

VERIF = os.path.dirname(os.path.dirname(os.path.abspath(__file__)))


def main():
    tier = sys.argv[1] if len(sys.argv) > 1 else "quick"
    only = sys.argv[2:]
    man = json.load(open(os.path.join(VERIF, "MANIFEST.json")))
    bad = 0
    for c in man["checks"]:
        pid = c["property_id"]
        if only and pid not in only:
            continue
        cmd = c["quick_cmd"] if tier == "quick" else c["thorough_cmd"]
        t0 = time.time()
        p = subprocess.run(cmd, shell=True, cwd=VERIF, stdout=subprocess.PIPE, stderr=subprocess.STDOUT)
        out = p.stdout.decode("utf-8", "replace")
        last = [l for l in out.splitlines() if l.startswith(pid + " tier=")]
        viol = [l for l in out.splitlines() if l.startswith("VIOLATION")]
        print("%s rc=%d %.0fs %s%s" % (pid, p.returncode, time.time() - t0, last[0] if last else out[-300:], (" | " + " ".join(viol[:3])) if viol else ""))
        sys.stdout.flush()
        if p.returncode != 0:
            bad += 1
    sys.exit(1 if bad else 0)


if __name__ == "__main__":
    main()
