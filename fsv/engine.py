"""Hypothesis driving, worker pool, seeds, counters, evidence, replay (DESIGN.md 2.3-2.6)."""
import collections
import hashlib
import importlib
import json
import multiprocessing
import os
import sys
import time
import traceback

from . import build, findings, runner

VERIF = build.VERIF
WORKERS = int(os.environ.get("FSV_WORKERS", "14"))


class Disc:
    """One discrepancy between fselect and the oracle. `sig` is a structural signature."""

    def __init__(self, sig, **detail):
        self.sig = sig
        self.detail = detail

    def to_json(self):
        return {"sig": self.sig, "detail": jsonable(self.detail)}


class Outcome:
    def __init__(self):
        self.discs = []
        self.evals = 0          # binary runs whose result was compared with the oracle
        self.nontrivial = False
        self.classes = []       # labels for the class histogram
        self.inconclusive = False
        self.sample = None      # compact rendering for the evidence file
        self.nt_keys = None     # optional: several distinct non-trivial sub-cases (hashable strs)
        self.excluded = 0       # draws excluded by construction because of a known finding

    def add(self, sig, **detail):
        self.discs.append(Disc(sig, **detail))


def jsonable(x):
    if isinstance(x, bytes):
        return x[:2000].decode("utf-8", "replace")
    if isinstance(x, dict):
        return {str(k): jsonable(v) for k, v in x.items()}
    if isinstance(x, (list, tuple, set, frozenset)):
        return [jsonable(v) for v in (sorted(x, key=repr) if isinstance(x, (set, frozenset)) else x)]
    if isinstance(x, (str, int, float, bool)) or x is None:
        return x
    return repr(x)


def canon(case):
    return json.dumps(jsonable(case), sort_keys=True, separators=(",", ":"))


def chash(case):
    return hashlib.sha1(canon(case).encode("utf-8", "surrogatepass")).hexdigest()[:20]


def load_prop(pid):
    return importlib.import_module("fsv.props." + pid.lower())


class Acc:
    """Counters of one worker (merged by the parent)."""

    def __init__(self):
        self.cases = 0
        self.evals = 0
        self.nt = set()
        self.classes = collections.Counter()
        self.samples = []
        self.known = collections.Counter()
        self.inconclusive = 0
        self.excluded = 0
        self.failures = []   # list of (case, [disc json])
        self.error = None

    def record(self, case, out, open_sigs, max_samples=4):
        self.cases += 1
        self.evals += out.evals
        self.excluded += out.excluded
        if out.inconclusive:
            self.inconclusive += 1
        for c in out.classes:
            self.classes[c] += 1
        if out.nt_keys is not None:
            for k in out.nt_keys:
                self.nt.add(hashlib.sha1(k.encode("utf-8", "surrogatepass")).hexdigest()[:20])
        elif out.nontrivial:
            self.nt.add(chash(case))
        if (out.nontrivial or out.nt_keys) and len(self.samples) < max_samples:
            self.samples.append(out.sample if out.sample is not None else jsonable(case))
        for d in out.discs:
            if d.sig in open_sigs:
                self.known[d.sig] += 1

    def export(self):
        return {
            "cases": self.cases, "evals": self.evals, "nt": list(self.nt),
            "classes": dict(self.classes), "samples": self.samples, "known": dict(self.known),
            "inconclusive": self.inconclusive, "excluded": self.excluded,
            "failures": self.failures, "error": self.error,
        }


def _unknown(out, open_sigs):
    return [d for d in out.discs if d.sig not in open_sigs]


def _worker_generate(args):
    pid, tier, seed, widx, n = args[:5]
    survey = len(args) > 5 and args[5]
    import hypothesis
    from hypothesis import HealthCheck, Phase, given, settings
    try:  # cap the shrink phase (default 300 s per worker) - the minimal case is good enough after 40 s
        import hypothesis.internal.conjecture.engine as _ce
        _ce.MAX_SHRINKING_SECONDS = 40
    except Exception:
        pass
    mod = load_prop(pid)
    open_sigs = findings.open_signatures(pid)
    acc = Acc()
    state = {"failed": False, "last": None}

    @hypothesis.seed((seed * 1000003 + widx * 7919 + 17) & 0xFFFFFFFF)
    @settings(max_examples=n, database=None, deadline=None, derandomize=False,
              suppress_health_check=list(HealthCheck), report_multiple_bugs=False,
              phases=[Phase.generate, Phase.shrink], verbosity=hypothesis.Verbosity.quiet,
              print_blob=False)
    @given(mod.strategy(tier))
    def prop(case):
        out = mod.check(case)
        if not state["failed"]:
            acc.record(case, out, open_sigs)
        bad = _unknown(out, open_sigs)
        if bad and survey:
            for d in bad:
                acc.failures.append((jsonable(case), [d.to_json()]))
            return
        if bad:
            state["failed"] = True
            state["last"] = (jsonable(case), [d.to_json() for d in bad])
            raise AssertionError(bad[0].sig)

    try:
        prop()
    except AssertionError:
        if state["last"] is not None:
            acc.failures.append(state["last"])
        else:
            acc.error = traceback.format_exc()
    except BaseException:
        if state["last"] is not None and state["failed"]:
            acc.failures.append(state["last"])
        acc.error = traceback.format_exc()
    return acc.export()


def _worker_enumerate(args):
    pid, tier, chunk = args
    mod = load_prop(pid)
    open_sigs = findings.open_signatures(pid)
    acc = Acc()
    try:
        for case in chunk:
            out = mod.check(case)
            acc.record(case, out, open_sigs)
            bad = _unknown(out, open_sigs)
            if bad and len(acc.failures) < 3:
                acc.failures.append((jsonable(case), [d.to_json() for d in bad]))
    except BaseException:
        acc.error = traceback.format_exc()
    return acc.export()


def write_replay(pid, case, discs, seed, tier):
    os.makedirs(os.path.join(VERIF, "replays"), exist_ok=True)
    body = {"property": pid, "case": case, "discrepancies": discs, "seed": seed, "tier": tier}
    h = chash(case)[:12]
    path = os.path.join(VERIF, "replays", "%s-%s.json" % (pid, h))
    with open(path, "w") as f:
        json.dump(body, f, indent=1, sort_keys=True)
    return path


def replay(pid, path):
    """Strict re-evaluation of one saved case without Hypothesis."""
    build.build()
    mod = load_prop(pid)
    with open(path) as f:
        body = json.load(f)
    case = body["case"] if "case" in body else body
    out = mod.check(case)
    open_sigs = findings.open_signatures(pid)
    rc = 0
    for d in out.discs:
        tag = "known-finding" if d.sig in open_sigs else "violation"
        print("%s: %s %s" % (tag, d.sig, json.dumps(jsonable(d.detail))[:1500]))
        rc = 1
    if rc:
        print("VIOLATION property=%s replay=%s" % (pid, path))
    else:
        print("replay %s: property held (%d evaluations)" % (path, out.evals))
    return rc


def run_check(pid, tier, seed):
    t0 = time.time()
    build.build()
    mod = load_prop(pid)
    open_f = findings.open_for(pid)
    open_sigs = {f["signature"] for f in open_f}
    violations = []   # (case, discs)
    total = Acc()
    lines = []

    # 1. pinned regression cases and pinned cases of open findings (strict)
    pinned_count = 0
    pinned = [] if os.environ.get("FSV_SKIP_PINNED") else getattr(mod, "PINNED", [])   # sensitivity runs only
    for label, case in pinned:
        out = mod.check(case)
        pinned_count += 1
        total.record(case, out, open_sigs, max_samples=0)
        bad = _unknown(out, open_sigs)
        if bad:
            violations.append((jsonable(case), [d.to_json() for d in bad], "pinned:" + label))
    for f in open_f:
        case = f.get("pinned_case")
        hit = False
        if case is not None:
            out = mod.check(case)
            total.record(case, out, open_sigs, max_samples=0)
            hit = any(d.sig == f["signature"] for d in out.discs)
            bad = _unknown(out, open_sigs)
            if bad:
                violations.append((jsonable(case), [d.to_json() for d in bad], "finding:" + f["id"]))
        if hit:
            lines.append("KNOWN-FINDING: property=%s %s [%s]" % (pid, f["what"], f["signature"]))
        else:
            lines.append("note: open finding %s did not reproduce on its pinned case" % f["id"])

    # 2. exhaustive enumerations and 3. generated search, in one pool
    ctx = multiprocessing.get_context("fork")
    results = []
    enum_cases = list(mod.enumerate_cases(tier)) if hasattr(mod, "enumerate_cases") else []
    n_total = mod.examples(tier)
    per = max(1, (n_total + WORKERS - 1) // WORKERS) if n_total else 0
    runner.scratch_root()  # workers nest their scratch under this one (removed at exit)
    with ctx.Pool(WORKERS) as pool:
        jobs = []
        if enum_cases:
            k = max(1, len(enum_cases) // (WORKERS * 4) + 1)
            for i in range(0, len(enum_cases), k):
                jobs.append(pool.apply_async(_worker_enumerate, ((pid, tier, enum_cases[i:i + k]),)))
        if per:
            for w in range(WORKERS):
                jobs.append(pool.apply_async(_worker_generate, ((pid, tier, seed, w, per),)))
        for j in jobs:
            results.append(j.get())

    errors = []
    for r in results:
        total.cases += r["cases"]
        total.evals += r["evals"]
        total.nt.update(r["nt"])
        total.classes.update(r["classes"])
        total.known.update(r["known"])
        total.inconclusive += r["inconclusive"]
        total.excluded += r["excluded"]
        for s in r["samples"]:
            if len(total.samples) < 8:
                total.samples.append(s)
        for case, discs in r["failures"]:
            violations.append((case, discs, "search"))
        if r["error"]:
            errors.append(r["error"])

    # optional in-process fuzz supplement (C10 / C11): findings only count when they reproduce on the binary
    supplement = None
    if hasattr(mod, "supplement"):
        try:
            supplement = mod.supplement(tier, seed)
        except Exception:
            supplement = {"available": False, "reason": "supplement failed: " + traceback.format_exc()[-400:]}
        for case, discs in supplement.pop("violations", []):
            violations.append((jsonable(case), discs, "fuzz-supplement"))
        total.evals += supplement.get("executions", 0) and 0

    # de-duplicate violations by first signature
    seen = set()
    uniq = []
    for case, discs, origin in violations:
        key = discs[0]["sig"]
        if key in seen:
            continue
        seen.add(key)
        uniq.append((case, discs, origin))

    wall = time.time() - t0
    cov = {
        "evaluations": total.evals,
        "cases": total.cases,
        "distinct_nontrivial": len(total.nt),
        "rule": mod.RULE,
        "samples": total.samples[:8] or [{"note": "no non-trivial sample recorded"}],
        "classes": dict(sorted(total.classes.items())),
        "pinned_cases_replayed": pinned_count,
        "enumerated_cases": len(enum_cases),
        "generated_examples_requested": per * WORKERS if per else 0,
        "known_findings_hit": dict(total.known),
        "excluded_by_construction": total.excluded,
        "inconclusive_cases": total.inconclusive,
        "workers": WORKERS,
    }
    if supplement is not None:
        cov["fuzz_supplement"] = supplement
    if getattr(mod, "EXHAUSTIVE_NOTE", None) and enum_cases:
        cov["exhaustive"] = True
        cov["exhaustive_part"] = mod.EXHAUSTIVE_NOTE
    ev = {
        "property_id": pid, "tier": tier, "seed": seed, "level": mod.LEVEL,
        "coverage": cov, "assumptions": list(mod.ASSUMPTIONS), "wall_s": round(wall, 2),
        "violations": len(uniq),
    }
    os.makedirs(os.path.join(VERIF, "evidence"), exist_ok=True)
    with open(os.path.join(VERIF, "evidence", pid + ".json"), "w") as f:
        json.dump(ev, f, indent=1, sort_keys=True)

    for ln in lines:
        print(ln)
    print("%s tier=%s seed=%d cases=%d evaluations=%d distinct_nontrivial=%d known_hits=%d wall=%.1fs"
          % (pid, tier, seed, total.cases, total.evals, len(total.nt), sum(total.known.values()), wall))
    for case, discs, origin in uniq:
        path = write_replay(pid, case, discs, seed, tier)
        print("  failing (%s): %s" % (origin, json.dumps(discs[0])[:1200]))
        print("VIOLATION property=%s replay=%s" % (pid, path))
    if uniq:
        return 1
    if errors:
        sys.stdout.write("harness error (infrastructure, not a violation):\n" + errors[0][-3000:] + "\n")
        return 2
    if total.cases and total.inconclusive * 2 > total.cases:
        print("inconclusive: more than half of the cases hit the wall-clock watchdog")
        return 2
    return 0


def survey(pid, tier, seed, n):
    """Triage helper (not a registered check): run n generated cases without stopping at failures and
    print a histogram of discrepancy signatures with a few examples each."""
    build.build()
    mod = load_prop(pid)
    ctx = multiprocessing.get_context("fork")
    per = max(1, n // WORKERS)
    runner.scratch_root()  # workers nest their scratch under this one (removed at exit)
    with ctx.Pool(WORKERS) as pool:
        res = pool.map(_worker_generate, [(pid, tier, seed, w, per, True) for w in range(WORKERS)])
    hist = collections.Counter()
    ex = collections.defaultdict(list)
    cases = 0
    classes = collections.Counter()
    for r in res:
        cases += r["cases"]
        classes.update(r["classes"])
        if r["error"]:
            print("worker error:", r["error"][-2000:])
        for case, discs in r["failures"]:
            sig = discs[0]["sig"]
            hist[sig] += 1
            if len(ex[sig]) < 4:
                ex[sig].append((case, discs[0]))
    print("survey %s: %d cases" % (pid, cases))
    print("classes:", dict(sorted(classes.items())))
    for sig, c in hist.most_common():
        print("== %s: %d" % (sig, c))
        for case, d in ex[sig]:
            print("    ", json.dumps(d["detail"], ensure_ascii=False)[:700])
    return 0
