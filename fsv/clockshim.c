/* LD_PRELOAD shim: when FSV_FAKE_EPOCH=<unix seconds> is set, CLOCK_REALTIME reads that instant.
 * Used only by the C13 check to evaluate `today`, `yesterday` and signed day offsets under a
 * controlled clock. File timestamps are not affected (they come from the file system). */
#define _GNU_SOURCE
#include <dlfcn.h>
#include <stdlib.h>
#include <time.h>
#include <sys/time.h>

static long long fake_epoch(void) {
    const char *s = getenv("FSV_FAKE_EPOCH");
    if (!s || !*s) return -1;
    return atoll(s);
}

int clock_gettime(clockid_t clk, struct timespec *ts) {
    static int (*real)(clockid_t, struct timespec *) = 0;
    if (!real) real = (int (*)(clockid_t, struct timespec *))dlsym(RTLD_NEXT, "clock_gettime");
    long long f = fake_epoch();
    if (f >= 0 && (clk == CLOCK_REALTIME || clk == CLOCK_REALTIME_COARSE)) {
        ts->tv_sec = (time_t)f;
        ts->tv_nsec = 0;
        return 0;
    }
    return real(clk, ts);
}

int gettimeofday(struct timeval *tv, void *tz) {
    static int (*real)(struct timeval *, void *) = 0;
    if (!real) real = (int (*)(struct timeval *, void *))dlsym(RTLD_NEXT, "gettimeofday");
    long long f = fake_epoch();
    if (f >= 0 && tv) {
        tv->tv_sec = (time_t)f;
        tv->tv_usec = 0;
        return 0;
    }
    return real(tv, tz);
}

time_t time(time_t *t) {
    static time_t (*real)(time_t *) = 0;
    if (!real) real = (time_t (*)(time_t *))dlsym(RTLD_NEXT, "time");
    long long f = fake_epoch();
    if (f >= 0) {
        if (t) *t = (time_t)f;
        return (time_t)f;
    }
    return real(t);
}
