"""Tree specifications: strategies, materialiser, spec walk (DESIGN.md 3.1).

A tree is {name: node}; node = {"t": kind, ...}:
  f  regular file   c: text | hex: bytes(hex) | rep: [hexunit, count, hextail] | size: N (sparse)
                    mode, mtime, uid, gid, xattrs {name: text}, caps (hex of raw vfs_cap_data)
  h  hard link to sibling regular file "to"
  d  directory      ch: {name: node}, mode, mtime
  l  symlink        to: target text
  p  fifo, s socket, c char device (1:3), b block device (7:0)
  z  zip archive    members: [{n, c|hex|size, mode, dt:[y,m,d,H,M,S], deflate}], raw (hex, overrides), mode, mtime
"""
import io
import os
import stat
import zipfile

from hypothesis import strategies as st

# ---------------------------------------------------------------- names

PLAIN = ["a", "b", "c", "d1", "e2", "f", "g", "x", "y", "z", "k9", "m", "n0", "README", "Makefile",
         "src", "lib", "doc", "tmp1", "out"]
WITH_EXT = ["a.txt", "b.txt", "c.log", "d.tar.gz", "X.TXT", "notes.md", "img.png", "m.rs", "p.py",
            "lib.so.1", "data.csv", "Q.Zip.bak", "r.JPG"]
DOTFILES = [".hidden", ".cfg", ".a.txt", "..dots", ".d"]
SPACES = ["sp ace", "two  sp", " lead", "trail ", "a b.txt"]
UNICODE = ["été", "Жук", "日本", "\U0001F600x", "αβ.txt", "naïve.md"]
REGEX_META = ["a+b", "c(1)", "d[2]", "e{3}", "f|g", "^h", "i$", "j-k", "l,m", "n#o", "p~q", "r.s+t",
              "a\\b", "\\lead", "trail\\", "d[2]x", "D[2]"]
MARKUP = ["<b>", "a&b", "q\"q", "s'q", "x<y>z.txt"]
CONTROL = ["tab\tx", "nl\ny", "cr\rz"]

NAME_CLASSES = {
    "plain": PLAIN, "ext": WITH_EXT, "dot": DOTFILES, "space": SPACES, "unicode": UNICODE,
    "meta": REGEX_META, "markup": MARKUP, "control": CONTROL,
}


def names(*classes):
    pool = []
    for c in classes:
        pool.extend(NAME_CLASSES[c])
    return st.sampled_from(pool)


# ---------------------------------------------------------------- strategies

def file_node(contents=None, modes=None, mtimes=None):
    d = {"t": st.just("f")}
    d["c"] = contents if contents is not None else st.sampled_from(["", "x", "hello\n", "a\nb\nc\n", "0123456789" * 10])
    if modes is not None:
        d["mode"] = modes
    if mtimes is not None:
        d["mtime"] = mtimes
    return st.fixed_dictionaries(d)


def special_node(kinds="pscb"):
    return st.sampled_from([{"t": k} for k in kinds])


def link_node(targets):
    return st.fixed_dictionaries({"t": st.just("l"), "to": targets})


def tree(name_st, leaf_st, max_depth=4, max_children=4, min_children=0, dir_extra=None):
    """Recursive tree strategy built by construction (dict keys are unique sibling names)."""
    def level(depth):
        if depth <= 0:
            return st.dictionaries(name_st, leaf_st, min_size=min_children, max_size=max_children)
        sub = level(depth - 1)
        dfields = {"t": st.just("d"), "ch": sub}
        if dir_extra:
            dfields.update(dir_extra)
        node = st.one_of(leaf_st, st.fixed_dictionaries(dfields), st.fixed_dictionaries(dfields))
        return st.dictionaries(name_st, node, min_size=min_children, max_size=max_children)
    return level(max_depth - 1)


def grow(draw, sizes, name_st, leaf_st, dir_node=None, dir_ratio=(1, 3), max_depth=6, deep_bias=True):
    """Build a tree inside a composite strategy: n entries, each attached to an already existing
    directory (uniformly, or one of the most recent ones to get depth). Sibling names are made
    unique by construction. `sizes` is a list of candidate entry counts (drawn uniformly)."""
    n = draw(st.sampled_from(sizes))
    spec = {}
    dirs = [((), spec)]
    num, den = dir_ratio
    for i in range(n):
        if deep_bias and len(dirs) > 1 and draw(st.booleans()):
            rel, children = draw(st.sampled_from(dirs[-3:]))
        else:
            rel, children = draw(st.sampled_from(dirs))
        name = draw(name_st)
        if name in children:
            stem, dot, ext = name.partition(".")
            name = "%s%d%s%s" % (stem, i, dot, ext) if stem else "%s%d" % (name, i)
        make_dir = len(rel) + 1 < max_depth and draw(st.sampled_from(range(den))) < num
        if make_dir:
            node = dict(draw(dir_node)) if dir_node is not None else {"t": "d"}
            node["t"] = "d"
            node["ch"] = {}
            children[name] = node
            dirs.append((rel + (name,), node["ch"]))
        else:
            children[name] = draw(leaf_st)
    return spec


# ---------------------------------------------------------------- content helpers

def node_bytes(node):
    if "hex" in node:
        return bytes.fromhex(node["hex"])
    if "rep" in node:
        unit, count, tail = node["rep"]
        return bytes.fromhex(unit) * count + bytes.fromhex(tail)
    if "c" in node:
        return node["c"].encode("utf-8", "surrogateescape")
    return None


def zip_bytes(node):
    if "raw" in node:
        return bytes.fromhex(node["raw"])
    bio = io.BytesIO()
    with zipfile.ZipFile(bio, "w") as zf:
        for m in node.get("members", []):
            zi = zipfile.ZipInfo(m["n"], date_time=tuple(m.get("dt", (2020, 1, 2, 3, 4, 6))))
            zi.compress_type = zipfile.ZIP_DEFLATED if m.get("deflate") else zipfile.ZIP_STORED
            zi.create_system = 3
            if "mode" in m:
                zi.external_attr = (m["mode"] & 0xFFFF) << 16
            else:
                zi.external_attr = ((stat.S_IFDIR | 0o755) if m["n"].endswith("/") else (stat.S_IFREG | 0o644)) << 16
            if "size" in m:
                data = b"\0" * m["size"]
            else:
                data = node_bytes(m) or b""
            zf.writestr(zi, data)
            if m.get("mode") == 0:
                # writestr replaces "no attributes at all" by 0600: put the zero back (the central directory is
                # written from these objects on close) - a member without any stored mode
                zf.filelist[-1].external_attr = 0
    data = bio.getvalue()
    # members that a reader cannot unpack but whose directory entry is complete: the "encrypted" flag, or a
    # compression method nobody implements (6 = implode); patched into the local and the central header
    odd = {m["n"]: m for m in node.get("members", []) if m.get("enc") or m.get("method")}
    if odd:
        data = bytearray(data)
        with zipfile.ZipFile(io.BytesIO(bytes(data))) as zf:
            infos = {zi.filename: zi for zi in zf.infolist()}
            pos = zf.start_dir
        for name, m in odd.items():
            off = infos[name].header_offset
            if m.get("enc"):
                data[off + 6] |= 1
            if m.get("method"):
                data[off + 8:off + 10] = int(m["method"]).to_bytes(2, "little")
        while data[pos:pos + 4] == b"PK\x01\x02":
            nlen, xlen, clen = (int.from_bytes(data[pos + o:pos + o + 2], "little") for o in (28, 30, 32))
            name = bytes(data[pos + 46:pos + 46 + nlen]).decode("utf-8", "replace")
            if name in odd:
                if odd[name].get("enc"):
                    data[pos + 8] |= 1
                if odd[name].get("method"):
                    data[pos + 10:pos + 12] = int(odd[name]["method"]).to_bytes(2, "little")
            pos += 46 + nlen + xlen + clen
        data = bytes(data)
    if "truncate" in node:
        data = data[:node["truncate"]]
    if "flip" in node:
        pos, mask = node["flip"]
        if 0 <= pos < len(data):
            data = data[:pos] + bytes([data[pos] ^ mask]) + data[pos + 1:]
    return data


# ---------------------------------------------------------------- materialiser

def materialize(base, spec):
    """Create the tree below the existing directory `base`. Attributes (mode, owner, times) of
    directories are applied after their children exist."""
    _mk_children(base, spec)


def _mk_children(dirpath, children):
    later = []
    for name, node in children.items():
        p = os.path.join(dirpath, name)
        t = node["t"]
        if t == "h":
            later.append((p, node))
            continue
        if t == "f":
            data = node_bytes(node)
            with open(p, "wb") as fh:
                if data:
                    fh.write(data)
                if "size" in node and data is None:
                    fh.truncate(node["size"])
        elif t == "z":
            with open(p, "wb") as fh:
                fh.write(zip_bytes(node))
        elif t == "d":
            os.mkdir(p)
            _mk_children(p, node.get("ch", {}))
        elif t == "l":
            os.symlink(node["to"], p)
        elif t == "p":
            os.mkfifo(p)
        elif t == "s":
            os.mknod(p, stat.S_IFSOCK | 0o644)
        elif t == "c":
            os.mknod(p, stat.S_IFCHR | 0o644, os.makedev(1, 3))
        elif t == "b":
            os.mknod(p, stat.S_IFBLK | 0o644, os.makedev(7, 0))
        else:
            raise ValueError("unknown node kind %r" % t)
        _apply_attrs(p, node)
    for p, node in later:
        os.link(os.path.join(dirpath, node["to"]), p)


def _apply_attrs(p, node):
    t = node["t"]
    for k, v in (node.get("xattrs") or {}).items():
        os.setxattr(p, k, v.encode() if isinstance(v, str) else bytes(v), follow_symlinks=False)
    if "caps" in node:
        os.setxattr(p, "security.capability", bytes.fromhex(node["caps"]))
    if "uid" in node or "gid" in node:
        os.chown(p, node.get("uid", -1), node.get("gid", -1), follow_symlinks=False)
    if "mode" in node and t != "l":
        os.chmod(p, node["mode"])
    if "mtime" in node:
        # integer or fractional seconds (fractions are written with nanosecond precision)
        m_ns = int(round(node["mtime"] * 1000)) * 1000000
        a_ns = int(round(node.get("atime", node["mtime"]) * 1000)) * 1000000
        os.utime(p, ns=(a_ns, m_ns), follow_symlinks=False)


# ---------------------------------------------------------------- spec walk

def walk(spec, rel=()):
    """Yield (relpath tuple, node, level) for every entry; symlinks are not descended."""
    for name, node in spec.items():
        here = rel + (name,)
        yield here, node, len(here)
        if node["t"] == "d":
            yield from walk(node.get("ch", {}), here)


def subtree(spec, rel):
    cur = spec
    for comp in rel:
        cur = cur[comp]["ch"]
    return cur


def dirs_of(spec):
    return [rel for rel, node, _ in walk(spec) if node["t"] == "d"]


def count(spec):
    return sum(1 for _ in walk(spec))


def depth_of(spec):
    return max([lvl for _, _, lvl in walk(spec)] or [0])


# ---------------------------------------------------------------- attribute-rich trees (C02/C03/C05-C08)

ATTR_SIZES = [0, 0, 1, 9, 10, 10, 11, 99, 100, 100, 101, 999, 1000, 1023, 1024, 1024, 1025, 2048, 4096, 1500000, 3000000]
ATTR_MODES = [0o644, 0o644, 0o600, 0o755, 0o4755, 0o2750, 0o444, 0o664, 0o711, 0o1777]
ATTR_UIDS = [0, 0, 1000, 65534]
ATTR_GIDS = [0, 0, 100, 65534]
# mtime grid (UTC): around 2020-01-01 .. 2020-01-03 with second-level neighbours and ties
ATTR_MTIMES = [1577836800 - 1, 1577836800, 1577836800 + 1, 1577836800 + 43200, 1577836800 + 86399,
               1577836800 + 86400, 1577836800 + 86400 + 3600, 1577836800 + 2 * 86400 + 59, 1583020800,
               1577836800 + 43200, 1500000000, 1609459199, 1609459200,
               # sub-second parts: the column shows whole seconds and literals denote whole seconds
               1577836800 + 0.5, 1577836800 + 86399.999, 1577836800 - 0.25, 1609459199.75, 1577836800 + 86400 + 0.001]
ATTR_FILE_NAMES = ["a", "b.txt", "c.txt", "d.log", "e.LOG", "f.tar.gz", "README", "main.rs", "lib.rs", "x.bin",
                   "size", "name", "mode", "bin", ".hid", ".cfg.toml", "UP.TXT", "n10", "n9", "n100", "zz.md",
                   "k.c", "k.h", "long-file-name.txt", "s p.txt", "0", "1", "true", "é.txt", "Émile", "日本.md", "ź", "ß.c",
                   "Name", "Size", "x.Extension", "Mode",
                   # characters that mean something to a pattern engine but nothing to `=`: exact, case-sensitive
                   "data[1].txt", "Data[1].txt", "q(1)+.c", "Q(1)+.c", "w{2}.h", "back\\slash", "c^d$.e", "p|q.r",
                   # extensions that look like numbers, next to ones that do not (man pages, rotated logs)
                   "ls.1", "syslog.2", "m.10", "x.9a", "y.1x", "old.007",
                   # wildcard characters inside attribute values (they are not patterns when two columns are compared)
                   "a.*", "q.?", "*", "s*"]
ATTR_DIR_NAMES = ["src", "doc", "a", "b", "t1", "t2", "lib", "x.d", "bin", "size", ".git2", "Zed", "d[0]", "back\\dir"]


def _content_for(size, nlines):
    """Deterministic text of exactly `size` bytes with min(nlines, size) newline bytes."""
    if size <= 0:
        return ""
    nl = min(nlines, size)
    body = size - nl
    if nl == 0:
        return "x" * size
    per = body // nl
    out = []
    used = 0
    for i in range(nl):
        k = per if i < nl - 1 else body - used
        out.append("y" * k + "\n")
        used += k
    return "".join(out)


def attr_file(draw):
    size = draw(st.sampled_from(ATTR_SIZES))
    node = {"t": "f"}
    if size <= 4096:
        node["c"] = _content_for(size, draw(st.sampled_from([0, 0, 1, 2, 3, 5])))
    else:
        node["size"] = size
    node["mode"] = draw(st.sampled_from(ATTR_MODES))
    node["mtime"] = draw(st.sampled_from(ATTR_MTIMES))
    if draw(st.sampled_from(range(3))) == 0:
        node["uid"] = draw(st.sampled_from(ATTR_UIDS))
        node["gid"] = draw(st.sampled_from(ATTR_GIDS))
    return node


@st.composite
def attr_leaf(draw):
    k = draw(st.sampled_from(["f", "f", "f", "f", "f", "l", "l"]))
    if k == "f":
        return attr_file(draw)
    return {"t": "l", "to": draw(st.sampled_from(["a", "b.txt", "nonexistent", "src", "..", "README"]))}


def attr_tree(draw, sizes=(5, 8, 12, 16, 20, 25), max_depth=4, hardlinks=True):
    dir_node = st.fixed_dictionaries({"mode": st.sampled_from([0o755, 0o755, 0o750, 0o700, 0o2775]),
                                      "mtime": st.sampled_from(ATTR_MTIMES)})
    names = st.one_of(st.sampled_from(ATTR_FILE_NAMES), st.sampled_from(ATTR_FILE_NAMES), st.sampled_from(ATTR_DIR_NAMES))
    spec = grow(draw, list(sizes), names, attr_leaf(), dir_node=dir_node, dir_ratio=(1, 4), max_depth=max_depth)
    if hardlinks:
        # extra hard links next to some regular files (link count > 1)
        for rel, children in [((), spec)] + [(r, subtree(spec, r)) for r in dirs_of(spec)]:
            files = [n for n, nd in children.items() if nd["t"] == "f"]
            if files and draw(st.sampled_from(range(4))) == 0:
                target = draw(st.sampled_from(files))
                for k in range(draw(st.sampled_from([1, 1, 2]))):
                    nm = "hl%d_%s" % (k, target)
                    if nm not in children:
                        children[nm] = {"t": "h", "to": target}
    return spec
