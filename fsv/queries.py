"""Token-level generators of valid queries (used by C10 mutations; richer ASTs live in the property modules).

A query is a list of tokens; joining them with single spaces gives a valid query text. Tokens never need
further splitting (commas and brackets are their own tokens), so deleting / duplicating / transposing
tokens is a syntactic mutation of the query, not of its characters."""
from hypothesis import strategies as st

from . import lang

SAFE_COLUMNS = ["name", "ext", "path", "dir", "size", "fsize", "uid", "gid", "modified", "is_dir", "is_file",
                "is_symlink", "is_hidden", "mode", "hardlinks", "user_read", "other_exec", "is_empty",
                "line_count", "is_shebang", "is_source", "is_archive", "abspath", "absdir", "inode", "blocks",
                "sha1", "mime", "is_text", "has_xattrs", "caps", "user", "group", "suid"]

COLUMN_EXPRS = [
    ["length", "(", "name", ")"], ["upper", "(", "name", ")"], ["lower", "(", "ext", ")"],
    ["size", "+", "1"], ["size", "*", "2"], ["(", "size", "+", "10", ")", "/", "2"],
    ["concat", "(", "name", ",", "'-'", ",", "ext", ")"], ["format_size", "(", "size", ",", "'%.1'", ")"],
    ["substr", "(", "name", ",", "1", ",", "3", ")"], ["year", "(", "modified", ")"],
    ["coalesce", "(", "ext", ",", "'none'", ")"], ["size", "mod", "7"], ["-", "size"],
    # calls nested in calls (each bracket pair can be spelled round or curly independently)
    ["upper", "(", "substr", "(", "name", ",", "1", ",", "3", ")", ")"],
    ["concat", "(", "lower", "(", "ext", ")", ",", "upper", "(", "name", ")", ")"],
    ["length", "(", "concat", "(", "name", ",", "ext", ")", ")", "+", "1"],
    ["abs", "(", "(", "size", "-", "4", ")", ")"],
    # `*`, `/`, `%` right behind the first operand after an opening bracket (where `count(*)` has its star)
    ["(", "size", "*", "2", ")", "+", "1"], ["abs", "(", "size", "*", "2", ")"], ["3", "*", "(", "size", "%", "5", ")"],
    ["(", "size", "/", "2", ")", "+", "(", "hardlinks", "*", "3", ")"],
    # names with an underscore next to arithmetic
    ["line_count", "+", "1"], ["mp3_bitrate", "+", "1"], ["hardlinks", "*", "2"], ["is_dir"], ["sha2_256"], ["line_count", "-", "1"],
]
AGG_EXPRS = [["count(*)"], ["sum", "(", "size", ")"], ["avg", "(", "size", ")"],
             ["min", "(", "length", "(", "name", ")", ")"], ["max", "(", "size", ")"], ["stddev", "(", "size", ")"]]

ATOMS = [
    ["size", ">", "5"], ["size", "<=", "1k"], ["size", "between", "1", "and", "100"],
    ["name", "like", "'%.txt'"], ["name", "notlike", "'a%'"], ["name", "=", "'*.log'"], ["name", "!=", "README"],
    ["name", "=~", "'^[a-c]'"], ["name", "!=~", "'\\.rs$'"], ["ext", "===", "txt"], ["ext", "!==", "md"],
    ["is_dir", "=", "true"], ["is_file", "!=", "0"], ["is_file"], ["is_hidden"],
    ["modified", ">", "'2020-01-01'"], ["modified", "<=", "2030-01-01"], ["modified", "=", "today"],
    ["length", "(", "name", ")", ">=", "4"], ["size", "+", "1", "gt", "3"], ["hardlinks", "eq", "1"],
    ["name", "not", "like", "'%.md'"], ["size", "not", "between", "2", "and", "20"], ["uid", "ge", "0"],
    ["lower", "(", "name", ")", "eq", "readme"], ["mode", "like", "'-rw%'"],
    ["length", "(", "lower", "(", "name", ")", ")", ">=", "4"], ["upper", "(", "substr", "(", "name", ",", "1", ",", "1", ")", ")", "=", "A"],
]
ROOTS = [".", "sub", "./sub", "sub/deep", "./", "sub/", "empty"]
ROOT_OPTS = [["mindepth", "1"], ["maxdepth", "2"], ["depth", "1"], ["dfs"], ["bfs"], ["archives"], ["arc"],
             ["symlinks"], ["sym"], ["gitignore"], ["hg"], ["dockerignore"], ["nogit"], ["nohgignore"],
             ["nodock"]]


@st.composite
def condition(draw, depth=2):
    if depth <= 0 or draw(st.sampled_from(range(3))) == 0:
        return list(draw(st.sampled_from(ATOMS)))
    kind = draw(st.sampled_from(["and", "or", "not", "paren", "curly", "nota"]))
    if kind == "nota":
        # a leading NOT right before a condition that may carry an infix `not` of its own
        return ["not"] + list(draw(st.sampled_from([a for a in ATOMS if "(" not in a])))
    if kind in ("and", "or"):
        return draw(condition(depth - 1)) + [kind] + draw(condition(depth - 1))
    if kind == "not":
        return ["not"] + ["("] + draw(condition(depth - 1)) + [")"]
    if kind == "paren":
        return ["("] + draw(condition(depth - 1)) + [")"]
    return ["{"] + draw(condition(depth - 1)) + ["}"]


@st.composite
def valid_query(draw, need=None):
    """Token list of a valid query. need: None | 'brackets' | 'where' | 'order'."""
    toks = []
    if draw(st.booleans()):
        toks.append("select")
    agg = draw(st.sampled_from(range(6))) == 0
    ncols = draw(st.sampled_from([1, 1, 2, 3, 4]))
    cols = []
    group_key = None
    if agg:
        for _ in range(ncols):
            cols.append(list(draw(st.sampled_from(AGG_EXPRS))))
        if draw(st.booleans()):
            group_key = draw(st.sampled_from(["ext", "is_dir", "dir", "mode"]))
            cols.insert(0, [group_key])
    else:
        for _ in range(ncols):
            if draw(st.sampled_from(range(3))) == 0:
                cols.append(list(draw(st.sampled_from(COLUMN_EXPRS))))
            else:
                cols.append([draw(st.sampled_from(SAFE_COLUMNS))])
    commas = draw(st.booleans()) or any(len(c) > 1 for c in cols)
    for i, c in enumerate(cols):
        if i and commas:
            toks.append(",")
        toks.extend(c)
    ncolumns = len(cols)
    if draw(st.sampled_from(range(4))) != 0:
        toks.append("from")
        nroots = draw(st.sampled_from([1, 1, 1, 2]))
        picked = draw(st.lists(st.sampled_from(ROOTS), min_size=nroots, max_size=nroots, unique=True))
        for i, r in enumerate(picked):
            if i:
                toks.append(",")
            toks.append(r)
            for o in draw(st.lists(st.sampled_from(ROOT_OPTS), max_size=2)):
                toks.extend(o)
    has_where = need in ("where", "brackets") or draw(st.booleans())
    if has_where:
        toks.append("where")
        c = draw(condition(2))
        if need == "brackets" and not any(t in "()" for t in c if len(t) == 1):
            c = ["("] + c + [")"]
        toks.extend(c)
    if group_key is not None:
        toks.extend(["group", "by", group_key])
        if draw(st.sampled_from(range(4))) == 0:
            toks.extend([",", "size", "%", "2"])
    if not agg and (need == "order" or draw(st.booleans())):
        toks.extend(["order", "by"])
        nk = draw(st.sampled_from([1, 1, 2]))
        for i in range(nk):
            if i:
                toks.append(",")
            if draw(st.booleans()):
                toks.append(str(draw(st.sampled_from(range(1, ncolumns + 1)))))
            elif draw(st.sampled_from(range(4))) == 0:
                # an arithmetic key (a sign after BY is an operator as anywhere else, with or without WHERE before it)
                toks.extend(draw(st.sampled_from([["size", "*", "2"], ["size", "%", "3"], ["size", "/", "2"], ["size", "+", "1"],
                                                  ["hardlinks", "*", "2", "+", "size"], ["length", "(", "name", ")", "%", "2"]])))
            else:
                toks.append(draw(st.sampled_from(["name", "size", "path", "modified", "ext"])))
            d = draw(st.sampled_from(["", "", "asc", "desc"]))
            if d:
                toks.append(d)
    if draw(st.booleans()):
        toks.extend(["limit", str(draw(st.sampled_from([0, 1, 2, 5, 100])))])
    if draw(st.booleans()):
        toks.extend(["into", draw(st.sampled_from(lang.FORMATS + ["JSON", "Csv"]))])
    return toks


def split_args(draw, toks):
    """Render a token list as an argv: one argument, one argument per token, or a random grouping."""
    how = draw(st.sampled_from(["one", "one", "each", "groups"]))
    if how == "one" or len(toks) < 2:
        return [" ".join(toks)]
    if how == "each":
        return list(toks)
    cuts = draw(st.lists(st.booleans(), min_size=len(toks) - 1, max_size=len(toks) - 1))
    argv = [toks[0]]
    for t, cut in zip(toks[1:], cuts):
        if cut:
            argv.append(t)
        else:
            argv[-1] += " " + t
    return argv
