"""C12 Glob, LIKE, exact and regex matching agree with their textbook definitions (DESIGN.md 4, C12)."""
import os
import re

from hypothesis import strategies as st

from .. import lang, runner
from ..engine import Outcome, canon
from ..refs import glob

ID = "C12"
LEVEL = "exploration"
RULE = ("one flat directory of 8..24 generated file names over letters of both cases, digits, space and the regex "
        "metacharacters that can occur in a file name (. + ( ) [ ] { } | ^ $ - , ' # ~ _ % and, rarely, * ?) x 14 "
        "patterns per directory derived from those names (the name itself, case-flipped, substrings replaced by the "
        "family's wildcards, one character edited, a metacharacter inserted; for regex: escaped literals and a fixed "
        "list of small real regexes) x the eight operators = != like notlike === !== =~ !=~, plus a cache probe "
        "`(name OP1 P and size < 0) or name OP2 P` with the same pattern text under two operator families. Oracle: a "
        "direct recursive wildcard matcher (no regex translation) / exact comparison / Python re.search; negative "
        "operators must be the exact complement. Non-trivial = pattern has a wildcard or subject set has a regex "
        "metacharacter, and the pattern matches some but not all names; distinct by (names, operator, pattern).")
ASSUMPTIONS = [
    "ASCII names only (non-ASCII case folding is not asserted); regex features outside the listed common subset are not generated",
    "`=`/`!=` with a pattern without * and ? is exact, case-sensitive equality (usage: 'equality between the column field and value')",
]

ALPHA = "abcxyzABCXYZ019 .+()[]{}|^$-,'#~_%"
RARE = "*?"
REAL_RX = [r"^a.*\.txt$", r"[0-9]+", r"^[A-Z]", r"\.", r"a|b", r"^.{3}$", r"\s", r"(ab)+", r"^\(", r"\$$", r"[.+]",
           r"^[^a-z]*$", r"x{2}", r"\[", r"b?c"]
META = ".+()[]{}|^$-,'#~_%"


def examples(tier):
    return 2100 if tier == "quick" else 28000


_name = st.text(alphabet=st.sampled_from(ALPHA + ALPHA + ALPHA + RARE), min_size=1, max_size=7)


def rx_escape(s):
    return re.sub(r"([\\.+*?()|\[\]{}^$])", r"\\\1", s)


@st.composite
def pattern(draw, names):
    base = draw(st.sampled_from(names))
    fam = draw(st.sampled_from(["glob", "glob", "like", "like", "strict", "rx"]))
    neg = draw(st.booleans())
    tweak = draw(st.sampled_from(["exact", "case", "many", "many", "one", "edit", "meta", "prefix", "suffix"]))
    many, one = ("*", "?") if fam == "glob" else ("%", "_") if fam == "like" else ("", "")
    p = base
    if tweak == "case":
        p = base.swapcase()
    elif tweak == "edit":
        i = draw(st.sampled_from(range(len(base))))
        p = base[:i] + draw(st.sampled_from("abXY0.+_")) + base[i + 1:]
    elif tweak == "meta":
        i = draw(st.sampled_from(range(len(base) + 1)))
        p = base[:i] + draw(st.sampled_from(META)) + base[i:]
    elif tweak in ("many", "one") and many:
        i = draw(st.sampled_from(range(len(base) + 1)))
        j = draw(st.sampled_from(range(i, len(base) + 1)))
        if tweak == "one":
            j = min(len(base), i + 1)
        p = base[:i] + (many if tweak == "many" else one) + base[j:]
    elif tweak == "prefix" and many:
        p = base[:max(1, len(base) // 2)] + many
    elif tweak == "suffix" and many:
        p = many + base[len(base) // 2:]
    if fam == "rx":
        if draw(st.sampled_from(range(3))) == 0:
            p = draw(st.sampled_from(REAL_RX))
        elif tweak == "prefix":
            p = "^" + rx_escape(base[:max(1, len(base) // 2)])
        elif tweak == "suffix":
            p = rx_escape(base[len(base) // 2:]) + "$"
        else:
            p = "^" + rx_escape(p) + "$"
    if fam == "glob":
        op = draw(st.sampled_from(["!=", "<>", "ne"] if neg else ["=", "==", "eq"]))
    elif fam == "like":
        op = draw(st.sampled_from(["notlike", "not like"])) if neg else "like"
        op = "not like" if op == "notlike" else op     # the word `notlike` is C11's subject
    elif fam == "strict":
        op = "!==" if neg else "==="
    else:
        op = draw(st.sampled_from(["!=~", "!~="] if neg else ["=~", "~=", "regexp", "rx"]))
    if not p or all(q in p for q in "'\"`"):
        p = "q"
    return {"fam": fam, "neg": neg, "op": op, "pat": p}


@st.composite
def strategy_(draw, tier):
    n = draw(st.sampled_from([8, 12, 16, 24]))
    raw = draw(st.lists(_name, min_size=n, max_size=n, unique=True))
    names = []
    for x in raw:
        if x in (".", ".."):
            x += "x"
        if x not in names:
            names.append(x)
    pats = [draw(pattern(names)) for _ in range(14)]
    probes = []
    for _ in range(3):
        a = draw(pattern(names))
        fam2 = draw(st.sampled_from([f for f in ("glob", "like", "rx") if f != a["fam"]]))
        op2 = {"glob": "=", "like": "like", "rx": "=~"}[fam2]
        if a["fam"] == "strict":
            continue
        probes.append({"first": a, "op2": op2, "fam2": fam2})
    return {"names": names, "pats": pats, "probes": probes}


def strategy(tier):
    return strategy_(tier)


def matches(fam, pat, name):
    """Positive-form truth; None if the reference cannot decide (invalid regex for Python)."""
    if fam == "glob":
        return glob.glob_match(pat, name) if glob.is_glob(pat) else pat == name
    if fam == "like":
        return glob.like_match(pat, name)
    if fam == "strict":
        return pat == name
    try:
        return re.search(pat, name) is not None
    except re.error:
        return None


def run_names(out, base, cond):
    q = "name from . where %s into list" % cond
    res = runner.run([q], cwd=base)
    out.evals += 1
    if res.wall_timeout:
        out.inconclusive = True
        return None, q, res
    if res.status != 0 or res.sig is not None or res.err:
        return None, q, res
    try:
        return {r[0] for r in runner.rows(res.out, 1)}, q, res
    except ValueError:
        return None, q, res


BARE_CHARS = set("abcdefghijklmnopqrstuvwxyzABCDEFGHIJKLMNOPQRSTUVWXYZ0123456789._*?%#^$[]|@")


def bare_ok(pat):
    """Patterns that the lexer takes as ONE text word without quotes (conservative): no blank, quote, bracket, comma,
    comparison character or arithmetic sign inside; an optional sign in front; not a word of the language; not
    starting with a digit after a sign (that is a number)."""
    body = pat[1:] if pat[:1] in "+-" else pat
    if not body or any(c not in BARE_CHARS for c in body):
        return False
    if pat[:1] in "+-" and (body[0].isdigit() or body[0] in "*?%."):
        return False
    if body[0] in "*%?" and len(body) == 1:
        return False
    low = body.lower()
    return not lang.is_reserved(low)


def has_meta(s):
    return any(c in META + RARE for c in s)


def check(case):
    out = Outcome()
    cdir = runner.new_case_dir()
    base = os.path.join(cdir, "t")
    os.mkdir(base)
    nt = []
    try:
        for n in case["names"]:
            open(os.path.join(base, n), "w").close()
        names = set(case["names"])
        nkey = None
        for p in case["pats"]:
            cond = "name %s %s" % (p["op"], lang.quote(p["pat"]))
            got, q, res = run_names(out, base, cond)
            truth = {n: matches(p["fam"], p["pat"], n) for n in names}
            if any(v is None for v in truth.values()):
                continue
            want = {n for n, v in truth.items() if v != p["neg"]}
            sig = "C12/%s/%s" % (p["fam"], "negative" if p["neg"] else "positive")
            if got is None:
                if not res.wall_timeout:
                    out.add(sig + "/run-failed", query=q, status=res.status, stderr=res.err[:200])
                continue
            if got != want:
                special = sorted({c for c in p["pat"] if c in META + RARE})
                out.add(sig + "/" + ("over" if got - want else "under") + "-match", query=q, pattern=p["pat"],
                        extra=sorted(got - want)[:6], missing=sorted(want - got)[:6], special_chars_in_pattern=special)
            # the same pattern written without quotes (the documentation: text needs no quotes unless it contains
            # blanks or characters of the query language): it is the same pattern, a leading sign included
            if bare_ok(p["pat"]):
                bare, qb, rb = run_names(out, base, "name %s %s" % (p["op"], p["pat"]))
                if bare is None:
                    if not rb.wall_timeout:
                        out.add(sig + "/bare/run-failed", query=qb, status=rb.status, stderr=rb.err[:200])
                elif bare != got:
                    out.add(sig + "/bare/differs-from-quoted", query=qb, pattern=p["pat"], extra=sorted(bare - got)[:6],
                            missing=sorted(got - bare)[:6], leading=p["pat"][:1])
                out.classes.append("bare-pattern" + ("/signed" if p["pat"][:1] in "+-" else ""))
            wild = (p["fam"] == "glob" and glob.is_glob(p["pat"])) or (p["fam"] == "like" and any(c in p["pat"] for c in "%_")) \
                or p["fam"] == "rx"
            if (wild or any(has_meta(n) for n in names)) and 0 < len(want) < len(names):
                if nkey is None:
                    nkey = canon(sorted(names))
                nt.append(nkey + "|" + cond)
            out.classes.append("fam=" + p["fam"] + ("/neg" if p["neg"] else ""))
        for pr in case["probes"]:
            a = pr["first"]
            pat = lang.quote(a["pat"])
            second = "name %s %s" % (pr["op2"], pat)
            combined = "(name %s %s and size < 0) or %s" % (a["op"], pat, second)
            alone, q1, r1 = run_names(out, base, second)
            both, q2, r2 = run_names(out, base, combined)
            if alone is None or both is None:
                continue      # e.g. an invalid regex: reported by the pattern loop when it is in the domain
            if alone != both:
                out.add("C12/cache/%s-then-%s" % (a["fam"], pr["fam2"]), query=q2, alone_query=q1,
                        extra=sorted(both - alone)[:6], missing=sorted(alone - both)[:6])
            out.classes.append("cache-probe")
    finally:
        runner.rmtree(cdir)
    out.nt_keys = nt
    out.nontrivial = bool(nt)
    out.classes = sorted(set(out.classes))
    out.sample = {"names": case["names"][:8], "patterns": ["%s %s" % (p["op"], p["pat"]) for p in case["pats"][:6]]}
    return out


def _p(fam, op, pat, neg=False):
    return {"fam": fam, "neg": neg, "op": op, "pat": pat}


_N = ["a+b.txt", "aab.txt", "a{1}", "a1", "x|y", "x", "y", "a?", "a", "ab", "A.TXT", "a.txt", "a_txt", "p(1)", "p1", "^s$", "s", "c%d", "cxd"]
PINNED = [
    ("glob-metachars", {"names": _N, "probes": [], "pats": [
        _p("glob", "=", "a+b*"), _p("glob", "=", "a{1}*"), _p("glob", "=", "x|?"), _p("glob", "!=", "a+b*", True),
        _p("glob", "=", "p(1)*"), _p("glob", "=", "^s$*"), _p("glob", "=", "A.TXT"), _p("glob", "=", "a.t?t")]}),
    ("like-metachars", {"names": _N, "probes": [], "pats": [
        _p("like", "like", "a?"), _p("like", "like", "a+b%"), _p("like", "like", "a{1}"), _p("like", "like", "x|_"),
        _p("like", "not like", "a?", True), _p("like", "like", "A.TXT"), _p("like", "like", "c%d"), _p("like", "like", "a_txt")]}),
    ("cache-shared-across-operators", {"names": _N, "pats": [], "probes": [
        {"first": _p("glob", "=", "a*"), "op2": "like", "fam2": "like"},
        {"first": _p("like", "like", "a%"), "op2": "=~", "fam2": "rx"},
        {"first": _p("rx", "=~", "a."), "op2": "=", "fam2": "glob"}]}),
]
