"""C01 Traversal is exact (DESIGN.md 4, C01)."""
import collections
import os
import re

from hypothesis import strategies as st

from .. import runner, trees
from ..engine import Outcome

ID = "C01"
LEVEL = "exploration"
RULE = ("Hypothesis generates (tree, root list, per-root mindepth/maxdepth/bfs|dfs) by construction; each "
        "case runs `path from <roots> into list` twice (as generated and with every root's traversal mode "
        "flipped) and compares the row multiset with the spec-derived model, plus bfs level order, dfs "
        "subtree contiguity and root order. Non-trivial = tree depth >= 2 and (a depth window that excludes "
        "some entry, or >= 2 roots, or a non-regular entry, or an absolute root); distinct by canonical JSON "
        "of the whole case.")
ASSUMPTIONS = [
    "roots are disjoint directories of the generated tree (the property says disjoint); the root `/` is not tested",
    "row order among siblings (readdir order) is not asserted",
    "the binary is the release build of /repo's working tree; trees live on /tmp (ext4)",
]

SAFE = re.compile(r"^[A-Za-z0-9_.]+$")

_names = trees.names("plain", "plain", "ext", "dot", "space", "unicode", "control", "meta")
_leaf = st.one_of(
    trees.file_node(),
    trees.file_node(),
    trees.link_node(st.sampled_from(["a", "b", "..", ".", "../..", "nonexistent", "/", "src", "x/y"])),
    trees.special_node("psc"),
)


def examples(tier):
    return 8400 if tier == "quick" else 140000


@st.composite
def strategy_(draw, tier):
    depth = 6 if tier == "quick" else 8
    sizes = [0, 1, 2, 3, 5, 8, 10, 12, 15, 18, 22, 26] if tier == "quick" else [0, 1, 3, 6, 10, 15, 20, 28, 36, 48]
    # directories get plain (lexer-safe) names twice as often so that nested roots are available
    dnames = st.one_of(trees.names("plain"), trees.names("plain"), _names)
    spec = trees.grow(draw, sizes, st.one_of(_names, dnames), _leaf, dir_ratio=(2, 5), max_depth=depth)
    dirs = [()] + [d for d in trees.dirs_of(spec) if all(SAFE.match(c) for c in d)]
    tdepth = trees.depth_of(spec)
    default_root = draw(st.sampled_from(range(8))) == 0
    nroots = 1 if default_root else draw(st.sampled_from([1, 1, 1, 2, 2, 3]))
    chosen = []
    for _ in range(nroots):
        nonempty = [x for x in dirs[1:] if trees.subtree(spec, x)]
        pool = nonempty if nonempty and (nroots > 1 or draw(st.booleans())) else dirs
        d = draw(st.sampled_from(pool))
        if any(d[:len(c)] == c or c[:len(d)] == d for c in chosen):
            continue
        chosen.append(d)
    if default_root or not chosen:
        chosen = [()]
    roots = []
    for d in chosen:
        if default_root:
            spell = "none"
        elif d == ():
            spell = draw(st.sampled_from(["dot", "dotslash", "abs", "abs/"]))
        else:
            spell = draw(st.sampled_from(["rel", "dotrel", "rel/", "abs", "abs/"]))
        lim = st.one_of(st.none(), st.sampled_from(range(tdepth + 3)))
        roots.append({
            "dir": list(d), "spell": spell,
            "min": draw(lim), "max": draw(lim),
            "maxword": draw(st.sampled_from(["maxdepth", "depth"])),
            "mode": draw(st.sampled_from([None, "bfs", "dfs"])),
            "minfirst": draw(st.booleans()),
        })
    return {"tree": spec, "roots": roots}


def strategy(tier):
    return strategy_(tier)


def root_text(r, base):
    rel = "/".join(r["dir"])
    s = r["spell"]
    if s == "none":
        return "."
    if s == "dot":
        return "."
    if s == "dotslash":
        return "./"
    if s == "rel":
        return rel
    if s == "rel/":
        return rel + "/"
    if s == "dotrel":
        return "./" + rel
    if s == "abs":
        return base + ("/" + rel if rel else "")
    if s == "abs/":
        return base + ("/" + rel if rel else "") + "/"
    raise ValueError(s)


def join(root, rel):
    return (root if root.endswith("/") else root + "/") + "/".join(rel)


def render(case, base, flip=False):
    parts = []
    default = case["roots"][0]["spell"] == "none"
    for r in case["roots"]:
        words = [] if default else [root_text(r, base)]
        opts = []
        if r["min"] is not None:
            opts.append("mindepth %d" % r["min"])
        if r["max"] is not None:
            opts.append("%s %d" % (r["maxword"], r["max"]))
        if not r["minfirst"]:
            opts.reverse()
        mode = r["mode"]
        if flip:
            mode = "bfs" if mode == "dfs" else "dfs"
        if mode:
            opts.append(mode)
        parts.append(" ".join(words + opts))
    if default:
        q = "path " + parts[0] + " into list"
    else:
        q = "path from " + ", ".join(parts) + " into list"
    return " ".join(q.split())


def expected(case, base):
    """display path -> (root index, rel tuple, level, is_dir) and the expected multiset."""
    exp = collections.Counter()
    info = {}
    for i, r in enumerate(case["roots"]):
        rt = root_text(r, base)
        sub = trees.subtree(case["tree"], r["dir"])
        mn = r["min"] or 0
        mx = r["max"] or 0
        for rel, node, lvl in trees.walk(sub):
            if (mn == 0 or lvl >= mn) and (mx == 0 or lvl <= mx):
                p = join(rt, rel)
                exp[p] += 1
                info[p] = (i, rel, lvl, node["t"] == "d")
    return exp, info


def eff_mode(r, flip):
    m = r["mode"] or "bfs"
    if flip:
        m = "bfs" if m == "dfs" else "dfs"
    return m


def check(case):
    out = Outcome()
    cdir = runner.new_case_dir()
    base = os.path.join(cdir, "t")
    os.mkdir(base)
    try:
        trees.materialize(base, case["tree"])
        exp, info = expected(case, base)
        results = []
        for flip in (False, True):
            q = render(case, base, flip)
            res = runner.run([q], cwd=base)
            out.evals += 1
            if res.wall_timeout:
                out.inconclusive = True
                continue
            mode_tag = "/".join(eff_mode(r, flip) for r in case["roots"])
            if res.status != 0 or res.sig is not None:
                out.add("C01/status", query=q, status=res.status, signal=res.sig, stderr=res.err)
                continue
            if res.err:
                out.add("C01/stderr-not-empty", query=q, stderr=res.err)
            try:
                got_rows = [r[0] for r in runner.rows(res.out, 1)]
            except ValueError as e:
                out.add("C01/list-malformed", query=q, err=str(e))
                continue
            got = collections.Counter(got_rows)
            results.append(got)
            if got != exp:
                missing = sorted((exp - got).elements())
                extra = sorted((got - exp).elements())
                dup = [p for p in extra if p in exp]
                if missing:
                    out.add("C01/rows/missing", query=q, missing=missing[:10], modes=mode_tag)
                if dup:
                    out.add("C01/rows/duplicate", query=q, duplicate=dup[:10], modes=mode_tag)
                if [p for p in extra if p not in exp]:
                    out.add("C01/rows/extra", query=q, extra=[p for p in extra if p not in exp][:10], modes=mode_tag)
                continue
            # order properties
            last_root = -1
            for p in got_rows:
                ri = info[p][0]
                if ri < last_root:
                    out.add("C01/root-order", query=q, row=p)
                    break
                last_root = max(last_root, ri)
            for i, r in enumerate(case["roots"]):
                mine = [p for p in got_rows if info[p][0] == i]
                m = eff_mode(r, flip)
                if m == "bfs":
                    lv = [info[p][2] for p in mine]
                    if any(lv[k] > lv[k + 1] for k in range(len(lv) - 1)):
                        out.add("C01/bfs-order", query=q, levels=lv[:60])
                else:
                    rels = [info[p][1] for p in mine]
                    for k, p in enumerate(mine):
                        if not info[p][3]:
                            continue
                        d = info[p][1]
                        n_desc = sum(1 for r2 in rels if len(r2) > len(d) and r2[:len(d)] == d)
                        block = rels[k + 1:k + 1 + n_desc]
                        if len(block) != n_desc or any(r2[:len(d)] != d for r2 in block):
                            out.add("C01/dfs-order", query=q, directory="/".join(d), rows=mine[:60])
                            break
        if len(results) == 2 and results[0] != results[1]:
            out.add("C01/bfs-dfs-differ", query=render(case, base))
    finally:
        runner.rmtree(cdir)
    # classification
    spec = case["tree"]
    depth = trees.depth_of(spec)
    total = sum(trees.count(trees.subtree(spec, r["dir"])) for r in case["roots"])
    window_excludes = sum(exp.values()) < total
    nonreg = any(n["t"] not in ("f", "d") for _, n, _ in trees.walk(spec))
    absroot = any(r["spell"].startswith("abs") for r in case["roots"])
    out.nontrivial = depth >= 2 and (window_excludes or len(case["roots"]) >= 2 or nonreg or absroot)
    cl = out.classes
    cl.append("roots=%d" % len(case["roots"]))
    if case["roots"][0]["spell"] == "none":
        cl.append("default-root")
    if absroot:
        cl.append("absolute-root")
    if window_excludes:
        cl.append("window-excludes-some")
    if any((r["min"] or 0) > (r["max"] or 0) > 0 for r in case["roots"]):
        cl.append("mindepth>maxdepth")
    if nonreg:
        cl.append("has-nonregular")
    if any(n["t"] == "l" for _, n, _ in trees.walk(spec)):
        cl.append("has-symlink")
    if any(eff_mode(r, False) == "dfs" for r in case["roots"]):
        cl.append("dfs-as-generated")
    cl.append("depth=%d" % min(depth, 7))
    if sum(exp.values()) == 0:
        cl.append("expected-empty")
    out.sample = {"query": render(case, "<base>"), "entries": total, "expected_rows": sum(exp.values()),
                  "tree_depth": depth, "first_rows": sorted(exp)[:4]}
    return out


def _pin(tree, roots):
    return {"tree": tree, "roots": roots}


def _r(d, spell, mn=None, mx=None, mode=None, maxword="maxdepth"):
    return {"dir": d, "spell": spell, "min": mn, "max": mx, "maxword": maxword, "mode": mode, "minfirst": True}


_T = {"a": {"t": "d", "ch": {"b": {"t": "d", "ch": {"f": {"t": "f", "c": "x"}, "g": {"t": "d", "ch": {"h": {"t": "f", "c": ""}}}}},
                              "l": {"t": "l", "to": "b"}, "p": {"t": "p"}}},
      "c": {"t": "d", "ch": {"k": {"t": "f", "c": "1"}}}, "top": {"t": "f", "c": ""}}

PINNED = [
    ("dot-root-window", _pin(_T, [_r([], "dot", 2, 3)])),
    ("two-roots-dfs", _pin(_T, [_r(["a"], "rel", None, 2, "dfs"), _r(["c"], "abs", 1, None, "bfs", "depth")])),
    ("default-root-depth", _pin(_T, [_r([], "none", None, 1, None, "depth")])),
    ("min-gt-max", _pin(_T, [_r([], "dotslash", 3, 1)])),
]
