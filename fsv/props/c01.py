"""C01 Traversal is exact (DESIGN.md 4, C01)."""
import collections
import os
import re

from hypothesis import strategies as st

from .. import runner, trees
from ..engine import Outcome

ID = "C01"
LEVEL = "exploration"
RULE = ("Hypothesis generates (tree, root list, per-root mindepth/maxdepth/bfs|dfs) by construction; each "
        "case runs `path from <roots> into list` twice (as generated and with every root's traversal mode "
        "flipped) and compares the row multiset with the spec-derived model, plus bfs level order, dfs "
        "subtree contiguity and root order. Non-trivial = tree depth >= 2 and (a depth window that excludes "
        "some entry, or >= 2 roots, or a non-regular entry, or an absolute root); distinct by canonical JSON "
        "of the whole case. One case in eight uses a specially spelled root instead: `/` or the default root with cwd `/` "
        "(inside a chroot jail), or a relative directory called `~t` (plain, quoted, with a sub-directory) - same window oracle; one in sixteen puts the same sub-tree on 2-3 fresh tmpfs "
        "mounts (private mount namespace, so inode numbers repeat across file systems) and searches them from above or as "
        "separate roots.")
ASSUMPTIONS = [
    "roots are disjoint directories of the generated tree (the property says disjoint)",
    "the root `/` is searched inside a chroot jail, where `/` is a small private tree (binary, libraries, the generated tree)",
    "row order among siblings (readdir order) is not asserted",
    "the binary is the release build of /repo's working tree; trees live on /tmp (ext4)",
]

SAFE = re.compile(r"^[A-Za-z0-9_.]+$")

_names = trees.names("plain", "plain", "ext", "dot", "space", "unicode", "control", "meta")
_leaf = st.one_of(
    trees.file_node(),
    trees.file_node(),
    trees.link_node(st.sampled_from(["a", "b", "..", ".", "../..", "nonexistent", "/", "src", "x/y"])),
    trees.special_node("psc"),
)


def examples(tier):
    return 8400 if tier == "quick" else 140000


@st.composite
def strategy_(draw, tier):
    depth = 6 if tier == "quick" else 8
    sizes = [0, 1, 2, 3, 5, 8, 10, 12, 15, 18, 22, 26] if tier == "quick" else [0, 1, 3, 6, 10, 15, 20, 28, 36, 48]
    # directories get plain (lexer-safe) names twice as often so that nested roots are available
    dnames = st.one_of(trees.names("plain"), trees.names("plain"), _names)
    spec = trees.grow(draw, sizes, st.one_of(_names, dnames), _leaf, dir_ratio=(2, 5), max_depth=depth)
    dirs = [()] + [d for d in trees.dirs_of(spec) if all(SAFE.match(c) for c in d)]
    tdepth = trees.depth_of(spec)
    default_root = draw(st.sampled_from(range(8))) == 0
    nroots = 1 if default_root else draw(st.sampled_from([1, 1, 1, 2, 2, 3]))
    chosen = []
    for _ in range(nroots):
        nonempty = [x for x in dirs[1:] if trees.subtree(spec, x)]
        pool = nonempty if nonempty and (nroots > 1 or draw(st.booleans())) else dirs
        d = draw(st.sampled_from(pool))
        if any(d[:len(c)] == c or c[:len(d)] == d for c in chosen):
            continue
        chosen.append(d)
    if default_root or not chosen:
        chosen = [()]
    roots = []
    for d in chosen:
        if default_root:
            spell = "none"
        elif d == ():
            spell = draw(st.sampled_from(["dot", "dotslash", "abs", "abs/"]))
        else:
            spell = draw(st.sampled_from(["rel", "dotrel", "rel/", "abs", "abs/"]))
        lim = st.one_of(st.none(), st.sampled_from(range(tdepth + 3)))
        roots.append({
            "dir": list(d), "spell": spell,
            "min": draw(lim), "max": draw(lim),
            "maxword": draw(st.sampled_from(["maxdepth", "depth"])),
            "mode": draw(st.sampled_from([None, "bfs", "dfs"])),
            "minfirst": draw(st.booleans()),
        })
    return {"tree": spec, "roots": roots}


# ---------------------------------------------------------------- roots with a special spelling: `/`, `~name`

_jail = {"pid": None, "path": None, "n": 0}


def jail():
    if _jail["pid"] != os.getpid() or not _jail["path"] or not os.path.isdir(_jail["path"]):
        _jail.update(pid=os.getpid(), path=runner.make_jail(lambda j: os.makedirs(j + "/w")), n=0)
    return _jail["path"]


@st.composite
def special_roots_(draw, tier):
    spec = trees.grow(draw, [3, 5, 8, 12], trees.names("plain"), st.just({"t": "f", "c": ""}), dir_ratio=(1, 2), max_depth=4)
    kind = draw(st.sampled_from(["slash", "slash", "slash-cwd", "tilde-name", "tilde-name-quoted", "tilde-sub"]))
    mn = draw(st.sampled_from([None, None, 1, 2, 3]))
    mx = draw(st.sampled_from([None, 1, 2, 3, 4]))
    return {"kind": "special-root", "tree": spec, "root": kind, "mn": mn, "mx": mx, "mode": draw(st.sampled_from(["", "bfs", "dfs"]))}


def check_special(case):
    """The window is counted from the root however the root is spelled: `/` (inside a chroot, so that `/` is a small
    private tree) and a relative directory whose name begins with `~` (an ordinary name, no home directory)."""
    out = Outcome()
    j = jail()
    _jail["n"] += 1
    top = "/w/c%d" % _jail["n"]
    opts = ((" mindepth %d" % case["mn"]) if case["mn"] else "") + ((" maxdepth %d" % case["mx"]) if case["mx"] else "") + \
           ((" " + case["mode"]) if case["mode"] else "")
    try:
        kind = case["root"]
        if kind.startswith("slash"):
            # everything in the jail is the tree: binary, libraries, /w/cN/... - the model is os.walk of the jail
            os.makedirs(j + top)
            trees.materialize(j + top, case["tree"])
            walk_root, shown, cwd = j, ("/" if kind == "slash" else "."), "/"
            root_text_ = "/" if kind == "slash" else None
        else:
            os.makedirs(j + top + "/~t/sub")
            trees.materialize(j + top + "/~t/sub", case["tree"])
            open(j + top + "/~t/f", "w").close()
            sub = kind == "tilde-sub"
            walk_root = j + top + ("/~t/sub" if sub else "/~t")
            shown = "~t/sub" if sub else "~t"
            cwd = top
            root_text_ = "'%s'" % shown if kind == "tilde-name-quoted" else shown
        q = "path" + (" from " + root_text_ if root_text_ else "") + opts + " into list"
        res = runner.run_jailed(j, [q], cwd=cwd, extra_env={"HOME": "/w"})
        out.evals += 1
        if res.wall_timeout:
            out.inconclusive = True
            return out
        want = collections.Counter()
        for dp, dn, fn in os.walk(walk_root):
            rel = dp[len(walk_root):].strip("/")
            level = (rel.count("/") + 2) if rel else 1
            for n in dn + fn:
                if (not case["mn"] or level >= case["mn"]) and (not case["mx"] or level <= case["mx"]):
                    prefix = shown.rstrip("/") if shown != "/" else ""
                    want[prefix + "/" + (rel + "/" if rel else "") + n] += 1
        if res.status != 0 or res.sig is not None or res.err:
            out.add("C01/special-root/%s/status" % kind, query=q, status=res.status, signal=res.sig, stderr=res.err[:300])
            return out
        got = collections.Counter(r[0] for r in runner.rows(res.out, 1))
        if got != want:
            out.add("C01/special-root/%s/rows" % kind, query=q, missing=sorted((want - got).elements())[:6],
                    extra=sorted((got - want).elements())[:6])
        out.nontrivial = bool(case["mn"] or case["mx"]) and bool(want)
        out.classes = ["special-root", "root=" + kind] + (["window"] if (case["mn"] or case["mx"]) else [])
        out.sample = {"query": q, "rows": sum(got.values())}
    finally:
        runner.rmtree(j + top)
    return out


# ---------------------------------------------------------------- a tree that spans several file systems

@st.composite
def mounts_(draw, tier):
    sub = trees.grow(draw, [2, 3, 5, 8], trees.names("plain"), st.just({"t": "f", "c": ""}), dir_ratio=(1, 2), max_depth=3)
    return {"kind": "mounts", "n": draw(st.sampled_from([2, 2, 3])), "sub": sub, "mode": draw(st.sampled_from(["", "bfs", "dfs"])),
            # the mount points themselves on a fresh tmpfs: their inode numbers are as small as those inside the mounts
            "outer": draw(st.booleans()), "pads": draw(st.sampled_from([0, 1, 2, 3, 4])),
            "roots": draw(st.sampled_from(["dot", "dot", "each", "each-reversed"])), "mx": draw(st.sampled_from([None, None, 2, 3]))}


def check_mounts(case):
    """The same sub-tree created on n fresh tmpfs mounts (private mount namespace): inode numbers repeat from one
    file system to the next, every entry must still be listed exactly once."""
    out = Outcome()
    cdir = runner.new_case_dir()
    base = os.path.join(cdir, "t")
    os.mkdir(base)
    try:
        names = ["m%d" % i for i in range(1, case["n"] + 1)]
        script = ["set -e"]
        rels = []
        if case.get("outer"):
            # a run of directories with one file each: on a fresh tmpfs they get the inode numbers 2, 4, 6 ... - one of
            # them coincides with the number of the covered mount point directory outside
            for i in range(1, 6):
                rels += [("x%d" % i, True), ("x%d/f" % i, False)]
        for rel, node, _ in trees.walk(case["sub"]):
            if not ("/".join(rel)).startswith("x") or not case.get("outer"):
                rels.append(("/".join(rel), node["t"] == "d"))
        if case.get("outer"):
            script.append('mount -t tmpfs none "$1"')
            for i in range(case.get("pads", 0)):
                script.append('mkdir "$1/pad%d"' % i)
        for m in names:
            if case.get("outer"):
                script.append('mkdir "$1/%s"' % m)
            else:
                os.mkdir(os.path.join(base, m))
            script.append('mount -t tmpfs none "$1/%s"' % m)
            for r, isdir in rels:
                script.append(('mkdir -p "$1/%s/%s"' if isdir else ': > "$1/%s/%s"') % (m, r.replace('"', '')))
        script.append('cd "$1"; shift; exec "$@"')     # the working directory must be the mounted one, not the covered one
        wrap = ["unshare", "-m", "sh", "-c", "\n".join(script), "sh", base]
        opts = ((" maxdepth %d" % case["mx"]) if case["mx"] else "") + ((" " + case["mode"]) if case["mode"] else "")
        pads = ["pad%d" % i for i in range(case.get("pads", 0))] if case.get("outer") else []
        if case["roots"] == "dot":
            q = "path from ." + opts + " into list"
            lvl0 = 1
            want = collections.Counter("./" + m for m in names + pads)
            pref = {m: "./" + m for m in names}
        else:
            order = names if case["roots"] == "each" else names[::-1]
            q = "path from " + ", ".join(m + opts for m in order) + " into list"
            lvl0 = 0
            want = collections.Counter()
            pref = {m: m for m in names}
        for m in names:
            for r, _ in rels:
                level = lvl0 + r.count("/") + 1
                if not case["mx"] or level <= case["mx"]:
                    want[pref[m] + "/" + r] += 1
        if case["mx"] and lvl0 == 1 and case["mx"] < 1:
            want = collections.Counter()
        res = runner.run([q], cwd=base, wrap=wrap)
        out.evals += 1
        if res.wall_timeout:
            out.inconclusive = True
            return out
        if b"unshare" in res.err or b"mount:" in res.err:
            out.classes = ["mounts-unavailable"]      # no privilege for a mount namespace here: nothing asserted
            return out
        if res.status != 0 or res.sig is not None or res.err:
            out.add("C01/mounts/status", query=q, status=res.status, signal=res.sig, stderr=res.err[:300])
            return out
        got = collections.Counter(r[0] for r in runner.rows(res.out, 1))
        if got != want:
            out.add("C01/mounts/rows/%s" % ("missing" if want - got else "extra"), query=q, missing=sorted((want - got).elements())[:8],
                    extra=sorted((got - want).elements())[:8], file_systems=case["n"])
        out.nontrivial = any(isdir for _, isdir in rels)
        out.classes = ["several-file-systems", "mounts=%d" % case["n"], "roots=" + case["roots"]]
        out.sample = {"query": q, "rows": sum(got.values())}
    finally:
        runner.rmtree(cdir)
    return out


def strategy(tier):
    return st.sampled_from(range(16)).flatmap(
        lambda i: special_roots_(tier) if i in (0, 1) else mounts_(tier) if i == 2 else strategy_(tier))


def root_text(r, base):
    rel = "/".join(r["dir"])
    s = r["spell"]
    if s == "none":
        return "."
    if s == "dot":
        return "."
    if s == "dotslash":
        return "./"
    if s == "rel":
        return rel
    if s == "rel/":
        return rel + "/"
    if s == "dotrel":
        return "./" + rel
    if s == "abs":
        return base + ("/" + rel if rel else "")
    if s == "abs/":
        return base + ("/" + rel if rel else "") + "/"
    raise ValueError(s)


def join(root, rel):
    return (root if root.endswith("/") else root + "/") + "/".join(rel)


def render(case, base, flip=False):
    parts = []
    default = case["roots"][0]["spell"] == "none"
    for r in case["roots"]:
        words = [] if default else [root_text(r, base)]
        opts = []
        if r["min"] is not None:
            opts.append("mindepth %d" % r["min"])
        if r["max"] is not None:
            opts.append("%s %d" % (r["maxword"], r["max"]))
        if not r["minfirst"]:
            opts.reverse()
        mode = r["mode"]
        if flip:
            mode = "bfs" if mode == "dfs" else "dfs"
        if mode:
            opts.append(mode)
        parts.append(" ".join(words + opts))
    if default:
        q = "path " + parts[0] + " into list"
    else:
        q = "path from " + ", ".join(parts) + " into list"
    return " ".join(q.split())


def expected(case, base):
    """display path -> (root index, rel tuple, level, is_dir) and the expected multiset."""
    exp = collections.Counter()
    info = {}
    for i, r in enumerate(case["roots"]):
        rt = root_text(r, base)
        sub = trees.subtree(case["tree"], r["dir"])
        mn = r["min"] or 0
        mx = r["max"] or 0
        for rel, node, lvl in trees.walk(sub):
            if (mn == 0 or lvl >= mn) and (mx == 0 or lvl <= mx):
                p = join(rt, rel)
                exp[p] += 1
                info[p] = (i, rel, lvl, node["t"] == "d")
    return exp, info


def eff_mode(r, flip):
    m = r["mode"] or "bfs"
    if flip:
        m = "bfs" if m == "dfs" else "dfs"
    return m


def check(case):
    if case.get("kind") == "two-places":
        return check_bind(case)
    if case.get("kind") == "special-root":
        return check_special(case)
    if case.get("kind") == "mounts":
        return check_mounts(case)
    out = Outcome()
    cdir = runner.new_case_dir()
    base = os.path.join(cdir, "t")
    os.mkdir(base)
    try:
        trees.materialize(base, case["tree"])
        exp, info = expected(case, base)
        results = []
        for flip in (False, True):
            q = render(case, base, flip)
            res = runner.run([q], cwd=base)
            out.evals += 1
            if res.wall_timeout:
                out.inconclusive = True
                continue
            mode_tag = "/".join(eff_mode(r, flip) for r in case["roots"])
            if res.status != 0 or res.sig is not None:
                out.add("C01/status", query=q, status=res.status, signal=res.sig, stderr=res.err)
                continue
            if res.err:
                out.add("C01/stderr-not-empty", query=q, stderr=res.err)
            try:
                got_rows = [r[0] for r in runner.rows(res.out, 1)]
            except ValueError as e:
                out.add("C01/list-malformed", query=q, err=str(e))
                continue
            got = collections.Counter(got_rows)
            results.append(got)
            if got != exp:
                missing = sorted((exp - got).elements())
                extra = sorted((got - exp).elements())
                dup = [p for p in extra if p in exp]
                if missing:
                    out.add("C01/rows/missing", query=q, missing=missing[:10], modes=mode_tag)
                if dup:
                    out.add("C01/rows/duplicate", query=q, duplicate=dup[:10], modes=mode_tag)
                if [p for p in extra if p not in exp]:
                    out.add("C01/rows/extra", query=q, extra=[p for p in extra if p not in exp][:10], modes=mode_tag)
                continue
            # order properties
            last_root = -1
            for p in got_rows:
                ri = info[p][0]
                if ri < last_root:
                    out.add("C01/root-order", query=q, row=p)
                    break
                last_root = max(last_root, ri)
            for i, r in enumerate(case["roots"]):
                mine = [p for p in got_rows if info[p][0] == i]
                m = eff_mode(r, flip)
                if m == "bfs":
                    lv = [info[p][2] for p in mine]
                    if any(lv[k] > lv[k + 1] for k in range(len(lv) - 1)):
                        out.add("C01/bfs-order", query=q, levels=lv[:60])
                else:
                    rels = [info[p][1] for p in mine]
                    for k, p in enumerate(mine):
                        if not info[p][3]:
                            continue
                        d = info[p][1]
                        n_desc = sum(1 for r2 in rels if len(r2) > len(d) and r2[:len(d)] == d)
                        block = rels[k + 1:k + 1 + n_desc]
                        if len(block) != n_desc or any(r2[:len(d)] != d for r2 in block):
                            out.add("C01/dfs-order", query=q, directory="/".join(d), rows=mine[:60])
                            break
        if len(results) == 2 and results[0] != results[1]:
            out.add("C01/bfs-dfs-differ", query=render(case, base))
    finally:
        runner.rmtree(cdir)
    # classification
    spec = case["tree"]
    depth = trees.depth_of(spec)
    total = sum(trees.count(trees.subtree(spec, r["dir"])) for r in case["roots"])
    window_excludes = sum(exp.values()) < total
    nonreg = any(n["t"] not in ("f", "d") for _, n, _ in trees.walk(spec))
    absroot = any(r["spell"].startswith("abs") for r in case["roots"])
    out.nontrivial = depth >= 2 and (window_excludes or len(case["roots"]) >= 2 or nonreg or absroot)
    cl = out.classes
    cl.append("roots=%d" % len(case["roots"]))
    if case["roots"][0]["spell"] == "none":
        cl.append("default-root")
    if absroot:
        cl.append("absolute-root")
    if window_excludes:
        cl.append("window-excludes-some")
    if any((r["min"] or 0) > (r["max"] or 0) > 0 for r in case["roots"]):
        cl.append("mindepth>maxdepth")
    if nonreg:
        cl.append("has-nonregular")
    if any(n["t"] == "l" for _, n, _ in trees.walk(spec)):
        cl.append("has-symlink")
    if any(eff_mode(r, False) == "dfs" for r in case["roots"]):
        cl.append("dfs-as-generated")
    cl.append("depth=%d" % min(depth, 7))
    if sum(exp.values()) == 0:
        cl.append("expected-empty")
    out.sample = {"query": render(case, "<base>"), "entries": total, "expected_rows": sum(exp.values()),
                  "tree_depth": depth, "first_rows": sorted(exp)[:4]}
    return out


def _pin(tree, roots):
    return {"tree": tree, "roots": roots}


def _r(d, spell, mn=None, mx=None, mode=None, maxword="maxdepth"):
    return {"dir": d, "spell": spell, "min": mn, "max": mx, "maxword": maxword, "mode": mode, "minfirst": True}


_T = {"a": {"t": "d", "ch": {"b": {"t": "d", "ch": {"f": {"t": "f", "c": "x"}, "g": {"t": "d", "ch": {"h": {"t": "f", "c": ""}}}}},
                              "l": {"t": "l", "to": "b"}, "p": {"t": "p"}}},
      "c": {"t": "d", "ch": {"k": {"t": "f", "c": "1"}}}, "top": {"t": "f", "c": ""}}

def _sub(depth):
    return {"t": "d", "ch": {"f": {"t": "f", "c": ""}, "sub": _sub(depth - 1)}} if depth else {"t": "d", "ch": {"f": {"t": "f", "c": ""}}}


# names whose characters might be mistaken for a path separator or swallowed by a pattern, each holding a chain of
# directories, and a plain twin: every depth window is enumerated over them (a detection of "this name shifts the level"
# must not rest on a lucky draw of the generator - DESIGN.md 12.6)
_ODD_DIRS = ["a\\b", "\\lead", "trail\\", "d[0]", "x y", "q?", "s*", "plain"]
_ODD_TREE = {n: _sub(3) for n in _ODD_DIRS}


def check_bind(case):
    """One directory mounted a second time beside itself (a bind mount): without `symlinks` nothing is followed, so
    both places are ordinary directories and every entry of both is listed - as `find` does."""
    out = Outcome()
    cdir = runner.new_case_dir()
    base = os.path.join(cdir, "t")
    try:
        for d in ("", "/sub", "/sub/inner", "/sub2", "/other"):
            os.mkdir(base + d)
        for f in ("/sub/f1", "/sub/inner/f2", "/other/o"):
            open(base + f, "w").close()
        opts = (" " + case["mode"]) if case["mode"] else ""
        if case["shape"] == "bind":
            wrap = ["unshare", "-m", "sh", "-c", 'set -e\nmount --bind "$1/sub" "$1/sub2"\ncd "$1"; shift; exec "$@"', "sh", base]
            q = "path from .%s into list" % opts
            want = ["./other", "./other/o", "./sub", "./sub/f1", "./sub/inner", "./sub/inner/f2",
                    "./sub2", "./sub2/f1", "./sub2/inner", "./sub2/inner/f2"]
        else:
            wrap = None
            q = "path from sub%s, .%s into list" % (opts, opts)
            want = ["sub/f1", "sub/inner", "sub/inner/f2", "./other", "./other/o", "./sub", "./sub/f1", "./sub/inner", "./sub/inner/f2", "./sub2"]
        res = runner.run([q], cwd=base, wrap=wrap)
        out.evals += 1
        if res.wall_timeout:
            out.inconclusive = True
            return out
        if wrap and (b"unshare" in res.err or b"mount:" in res.err):
            out.classes = ["mounts-unavailable"]
            return out
        if res.status != 0 or res.err:
            out.add("C01/%s/run-failed" % case["shape"], query=q, status=res.status, stderr=res.err[:200])
            return out
        got = collections.Counter(r[0] for r in runner.rows(res.out, 1))
        if got != collections.Counter(want):
            out.add("C01/%s/rows" % case["shape"], query=q, missing=sorted((collections.Counter(want) - got).elements()),
                    extra=sorted((got - collections.Counter(want)).elements()))
        out.nontrivial = True
        out.nt_keys = ["%s|%s" % (case["shape"], case["mode"])]
        out.classes = ["shape=" + case["shape"]]
        out.sample = {"query": q, "rows": sum(got.values())}
    finally:
        runner.rmtree(cdir)
    return out


def enumerate_cases(tier):
    # (overlapping roots - `from sub, .` - are outside the property's "disjoint search roots" and not asserted)
    cases = [{"kind": "two-places", "shape": "bind", "mode": m} for m in ("", "bfs", "dfs")]
    for mn in (None, 1, 2, 3, 4, 5):
        for mx in (None, 1, 2, 3, 4, 5):
            for mode in (None, "dfs"):
                cases.append(_pin(_ODD_TREE, [_r([], "dot", mn, mx, mode)]))
    for mn, mx in ((2, 3), (3, None), (None, 3), (4, 4)):
        cases.append(_pin(_ODD_TREE, [_r([], "abs", mn, mx, "bfs", "depth")]))
    return cases


PINNED = [
    ("dot-root-window", _pin(_T, [_r([], "dot", 2, 3)])),
    ("two-roots-dfs", _pin(_T, [_r(["a"], "rel", None, 2, "dfs"), _r(["c"], "abs", 1, None, "bfs", "depth")])),
    ("default-root-depth", _pin(_T, [_r([], "none", None, 1, None, "depth")])),
    ("min-gt-max", _pin(_T, [_r([], "dotslash", 3, 1)])),
]
