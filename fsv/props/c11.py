"""C11 Documented alternative spellings of a query denote the same query (DESIGN.md 4, C11)."""
import collections
import itertools
import os
import re

from hypothesis import strategies as st

from .. import lang, queries, runner, trees
from ..engine import Outcome
from . import c10

ID = "C11"
LEVEL = "exploration"
RULE = ("generated valid queries (columns, functions, arithmetic, roots with options, nested conditions, group/order/"
        "limit/into) as token lists x renderings: (a) argument splitting at subsets of the whitespace positions (all "
        "single cuts, one word per token, random subsets), (b) letter case of word tokens (UPPER / Mixed, one at a time "
        "and all together), (c) every documented alias of operators, columns, functions, aggregates, root options, "
        "arithmetic words and formats - exhaustively one substitution at a time on template queries, and random "
        "combinations, (d) optional tokens: leading `select`, commas between columns, explicit `asc`, `()` after "
        "argument-less functions, curly vs round brackets, FROM clause at the end. Oracle: with `debug = true` the binary "
        "prints the parsed Query; for every rendering the parsed query text, the stdout rows (sequence when ordered) and "
        "the exit status must equal those of the canonical one-argument rendering. Non-trivial = the rendering differs "
        "from the canonical text in a token or split point and the query has a WHERE clause or an alias substitution; "
        "distinct by (query, rendering).")
ASSUMPTIONS = [
    "splits inside a quoted literal or inside a word, spellings that are not in the documentation, and the case of values are not generated",
    "the parsed query is read from the dbg! output that `debug = true` enables (matched by pattern, not by line number)",
]
EXHAUSTIVE_NOTE = "every alias of every documented operator, column, function, aggregate, root option, arithmetic word and format, substituted one at a time in a template query"

CFG = "debug = true\n"
_tree = {"pid": None, "base": None}


def tree_base():
    if _tree["pid"] != os.getpid() or not _tree["base"] or not os.path.isdir(_tree["base"]):
        d = runner.new_case_dir()
        base = os.path.join(d, "t")
        os.mkdir(base)
        trees.materialize(base, c10.FIXED_TREE)
        _tree.update(pid=os.getpid(), base=base)
    return _tree["base"]


def examples(tier):
    return 2100 if tier == "quick" else 28000


# ---------------------------------------------------------------- token classification

COL_GROUP = {w: g for g in lang.COLUMN_ALIASES for w in g}
FUNC_GROUP = {w: g for g in lang.FUNCTION_ALIASES for w in g}
OP_GROUP = {w: g for g in lang.OP_ALIASES for w in g}
ARITH_GROUP = {w: g for g in lang.ARITH_ALIASES for w in g}
ROPT_GROUP = {w: g for g in lang.ROOT_OPTION_ALIASES for w in g}
KW = {"select", "from", "where", "and", "or", "not", "order", "by", "group", "limit", "into", "asc", "desc"}


def classify(toks):
    """[(text, kind)] with kind in kw, col, func, op, arith, ropt, fmt, path, lit, punct."""
    out = []
    section = "select"
    prev = None
    for i, t in enumerate(toks):
        lt = t.lower()
        kind = "lit"
        if t in (",", "(", ")", "{", "}"):
            kind = "punct"
        elif t[0] in "'\"`":
            kind = "lit"
        elif lt in KW and not (lt == "group" and (i + 1 >= len(toks) or toks[i + 1].lower() != "by")):
            kind = "kw"
            if lt in ("from", "where", "limit", "into"):
                section = lt
            elif lt == "by":
                section = "by"
        elif section == "from":
            kind = "path" if prev in ("from", ",") else ("ropt" if lt in ROPT_GROUP else "lit")
        elif section == "into":
            kind = "fmt"
        elif section == "limit":
            kind = "lit"
        elif lt in OP_GROUP and (section in ("where",) or not lt.isalpha()):
            kind = "op"
        elif lt in ARITH_GROUP and (not lt.isalpha() or section in ("select", "where", "by")):
            # a sign in front of an operand is not the binary operator the alias table is about
            unary = lt in ("-", "+") and (not out or out[-1][1] in ("kw", "op", "arith") or out[-1][0] in (",", "(", "{"))
            kind = "punct" if unary else "arith"
        elif lt in FUNC_GROUP and i + 1 < len(toks) and toks[i + 1] in ("(", "{"):
            kind = "func"
        elif lt in COL_GROUP:
            kind = "col"
        elif lt in FUNC_GROUP:
            kind = "func"
        out.append((t, kind))
        prev = lt
    return out


# ---------------------------------------------------------------- renderings

def _words(arg):
    """Whitespace-separated words of one shell word (quotes protect blanks)."""
    out, cur, quote = [], "", None
    for c in arg:
        if quote:
            cur += c
            if c == quote:
                quote = None
        elif c == " ":
            if cur:
                out.append(cur)
                cur = ""
        else:
            if c in "'\"`":
                quote = c
            cur += c
    if cur:
        out.append(cur)
    return out


def root_word_violation(argv, toks=None):
    """Open finding K02: with several arguments the lexer lets a search-root word run to the end of its shell word.
    True when a root word (the word after FROM, or after a comma inside the FROM clause) shares its argument with
    words that follow it, or itself contains a comma or bracket (which end a root only in one-argument mode)."""
    if len(argv) < 2:
        return False
    before_from, after_where, after_by = True, False, False
    pending_root = False
    for a in argv:
        ws = _words(a)
        for j, w in enumerate(ws):
            lw = w.lower()
            in_from = not before_from and not after_where and not after_by
            if pending_root:
                pending_root = False
                quoted = w[0] in "'\"`"
                if j + 1 < len(ws) or (not quoted and any(c in w for c in ",(){}")):
                    return True
            if lw == "from":
                before_from, after_where, after_by = False, False, False
                pending_root = True
            elif lw == "where":
                after_where = True
            elif lw == "by":
                after_by = True
            elif in_from and "," in w and w[0] not in "'\"`":
                if w != ",":
                    return True          # a comma glued to a word inside the FROM clause
                pending_root = True
    return False


def mixed(s):
    return "".join(c.upper() if i % 2 == 0 else c.lower() for i, c in enumerate(s))


@st.composite
def renderings(draw, toks):
    kinds = classify(toks)
    rs = []
    n = len(toks)
    # (a) splits
    rs.append({"kind": "split/each", "argv": list(toks)})
    for _ in range(4):
        cut = draw(st.sampled_from(range(1, n))) if n > 1 else 0
        if cut:
            rs.append({"kind": "split/one-cut", "argv": [" ".join(toks[:cut]), " ".join(toks[cut:])]})
    for _ in range(3):
        if n > 2:
            cuts = draw(st.lists(st.booleans(), min_size=n - 1, max_size=n - 1))
            argv = [toks[0]]
            for t, c in zip(toks[1:], cuts):
                if c:
                    argv.append(t)
                else:
                    argv[-1] += " " + t
            rs.append({"kind": "split/subset", "argv": argv})
    # (b) letter case
    wordish = [i for i, (t, k) in enumerate(kinds) if k in ("kw", "col", "func", "ropt", "fmt") or (k in ("op", "arith") and t.isalpha())]
    if wordish:
        for f, name in ((str.upper, "upper"), (mixed, "mixed")):
            rs.append({"kind": "case/all-" + name, "argv": [" ".join(f(t) if i in wordish else t for i, t in enumerate(toks))]})
        for _ in range(3):
            i = draw(st.sampled_from(wordish))
            f = draw(st.sampled_from([str.upper, mixed, str.capitalize]))
            rs.append({"kind": "case/one/" + kinds[i][1], "argv": [" ".join(f(t) if j == i else t for j, t in enumerate(toks))]})
    # (c) aliases, random single and combined substitutions
    subs = []
    for i, (t, k) in enumerate(kinds):
        g = {"col": COL_GROUP, "func": FUNC_GROUP, "op": OP_GROUP, "arith": ARITH_GROUP, "ropt": ROPT_GROUP}.get(k, {}).get(t.lower())
        if g and len(g) > 1:
            subs.append((i, [a for a in g if a != t.lower()]))
    for _ in range(4):
        if subs:
            i, alts = draw(st.sampled_from(subs))
            a = draw(st.sampled_from(alts))
            rs.append({"kind": "alias/%s/%s->%s" % (kinds[i][1], toks[i], a), "argv": [" ".join(a if j == i else t for j, t in enumerate(toks))]})
    if len(subs) > 1:
        repl = {i: draw(st.sampled_from(alts)) for i, alts in subs if draw(st.booleans())}
        if repl:
            rs.append({"kind": "alias/combined", "argv": [" ".join(repl.get(j, t) for j, t in enumerate(toks))]})
    # (d) optional tokens
    if toks[0].lower() == "select":
        rs.append({"kind": "optional/no-select", "argv": [" ".join(toks[1:])]})
    else:
        rs.append({"kind": "optional/select", "argv": [" ".join(["select"] + toks)]})
    swap = {"(": "{", ")": "}", "{": "(", "}": ")"}
    if any(t in swap for t in toks):
        rs.append({"kind": "optional/bracket-style", "argv": [" ".join(swap.get(t, t) for t in toks)]})
        # ... and each matching pair on its own (a call inside a call may use the other style)
        stack, pairs = [], []
        for i, t in enumerate(toks):
            if t in ("(", "{"):
                stack.append(i)
            elif t in (")", "}") and stack:
                pairs.append((stack.pop(), i))
        if len(pairs) >= 2:
            for _ in range(2):
                flip = set()
                for a, b in pairs:
                    if draw(st.booleans()):
                        flip |= {a, b}
                if flip and len(flip) < 2 * len(pairs):
                    rs.append({"kind": "optional/bracket-style-per-pair",
                               "argv": [" ".join(swap[t] if i in flip else t for i, t in enumerate(toks))]})
    # no blanks around arithmetic signs in the select list (`size+1` is `size + 1`, whatever the column is called)
    lows0 = [t.lower() for t in toks]
    stop0 = min([lows0.index(k) for k in ("from", "where", "order", "group", "limit", "into") if k in lows0] or [len(toks)])
    if any(t in ("+", "*", "/", "%") for t in toks[:stop0]):
        glued = []
        for i, t in enumerate(toks):
            if i < stop0 and t in ("+", "*", "/", "%") and glued and i + 1 < stop0:
                glued[-1] = glued[-1] + t
                glued.append(None)
            elif glued and glued[-1] is None:
                glued[-2] = glued[-2] + t
                glued.pop()
            else:
                glued.append(t)
        rs.append({"kind": "optional/no-blanks-around-arithmetic", "argv": [" ".join(g for g in glued if g is not None)]})
    # explicit asc after an order key without direction
    if "order" in [t.lower() for t in toks]:
        oi = [t.lower() for t in toks].index("order")
        end = len(toks)
        for kw in ("limit", "into", "from"):
            if kw in [t.lower() for t in toks[oi:]]:
                end = min(end, oi + [t.lower() for t in toks[oi:]].index(kw))
        seg = toks[oi + 2:end]
        new = []
        for j, t in enumerate(seg):
            new.append(t)
            nxt = seg[j + 1] if j + 1 < len(seg) else None
            if t != "," and t.lower() not in ("asc", "desc") and (nxt is None or nxt == ",") and t not in ("(", ")", "+", "-", "*"):
                new.append("asc")
        rs.append({"kind": "optional/explicit-asc", "argv": [" ".join(toks[:oi + 2] + new + toks[end:])]})
    # commas between plain columns
    lows = [t.lower() for t in toks]
    stop = min([lows.index(k) for k in ("from", "where", "order", "group", "limit", "into") if k in lows] or [len(toks)])
    head = toks[:stop]
    if "," in head and not any(t in ("(", "{", "+", "-", "*", "/", "%") or t.lower() in ARITH_GROUP for t in head):
        rs.append({"kind": "optional/no-commas", "argv": [" ".join([t for t in head if t != ","] + toks[stop:])]})
    # FROM clause moved to the end
    if "from" in lows:
        fi = lows.index("from")
        fe = min([lows.index(k, fi) for k in ("where", "order", "group", "limit", "into") if k in lows[fi:]] or [len(toks)])
        if fe < len(toks):
            rs.append({"kind": "optional/from-at-end", "argv": [" ".join(toks[:fi] + toks[fe:] + toks[fi:fe])]})
    return rs


@st.composite
def strategy_(draw, tier):
    toks = draw(queries.valid_query())
    return {"toks": toks, "renderings": draw(renderings(toks))}


def strategy(tier):
    return strategy_(tier)


# ---------------------------------------------------------------- exhaustive alias table

def enumerate_cases(tier):
    cases = []

    def add(template, slot, group, kind):
        canon = group[0]
        toks = [canon if t == slot else t for t in template]
        rs = []
        for a in group[1:]:
            rs.append({"kind": "alias-table/%s/%s->%s" % (kind, canon, a), "argv": [" ".join(a if t == slot else t for t in template)]})
            rs.append({"kind": "alias-table/%s/%s->%s/upper" % (kind, canon, a), "argv": [" ".join(a.upper() if t == slot else t for t in template)]})
            rs.append({"kind": "alias-table/%s/%s->%s/split" % (kind, canon, a), "argv": [a if t == slot else t for t in template]})
        rs.append({"kind": "alias-table/%s/%s/upper" % (kind, canon), "argv": [" ".join(canon.upper() if t == slot else t for t in template)]})
        cases.append({"toks": toks, "renderings": rs})

    for g in lang.COLUMN_ALIASES:
        add(["select", "@", ",", "size", "from", ".", "where", "size", ">=", "0", "order", "by", "@", "limit", "3"], "@", g, "column")
        if g[0] in ("name", "extension", "path", "directory", "mode", "abspath", "absdir", "user", "group", "mime", "sha1"):
            add(["select", "size", "from", ".", "where", "@", "!=", "'zz'", "and", "@", "like", "'%'"], "@", g, "column")
    for g in lang.FUNCTION_ALIASES:
        f = g[0]
        if f in lang.AGGREGATES:
            add(["select", "@", "(", "size", ")", "from", "."], "@", g, "aggregate")
        elif f in ("current_date", "current_uid", "current_user", "current_gid", "current_group", "has_capabilities", "random"):
            add(["select", "name", ",", "@", "(", ")", "from", ".", "limit", "2"], "@", g, "function")
        elif f in ("concat_ws", "replace", "substring", "power", "log", "least", "greatest", "coalesce", "concat", "format_size"):
            add(["select", "@", "(", "name", ",", "2", ",", "3", ")", "from", ".", "limit", "2"], "@", g, "function")
        else:
            add(["select", "@", "(", "name", ")", ",", "size", "from", ".", "where", "size", ">", "1", "limit", "2"], "@", g, "function")
    for g in lang.OP_ALIASES:
        if g[0] in ("like", "notlike"):
            add(["name", "from", ".", "where", "name", "@", "'%.txt'"], "@", g, "operator")
        elif g[0] in ("=~", "!=~"):
            add(["name", "from", ".", "where", "name", "@", "'^a'"], "@", g, "operator")
        elif g[0] == "between":
            add(["name", "from", ".", "where", "size", "@", "1", "and", "20"], "@", g, "operator")
        else:
            add(["name", "from", ".", "where", "size", "@", "12", "and", "name", "@", "a.txt"], "@", g, "operator")
    cases.append({"toks": ["name", "from", ".", "where", "name", "notlike", "'%.txt'"],
                  "renderings": [{"kind": "alias-table/operator/notlike->not like", "argv": ["name from . where name not like '%.txt'"]}]})
    # the two-word spellings behind a leading NOT of the same condition: two negations, in either spelling
    for one, two, lit in (("notlike", "not like", "'%.txt'"), ("notrx", "not rx", "'^a'"), ("notrx", "not regexp", "'^a'"), ("notrx", "not =~", "'^a'")):
        for lead in ([], ["size", ">=", "0", "and"], ["not"]):
            toks = ["name", "from", ".", "where"] + lead + ["not", "name", one, lit]
            head = "name from . where " + " ".join(lead + ["not", "name"])
            cases.append({"toks": toks, "renderings": [
                {"kind": "alias-table/operator/not+%s->%s" % (one, two), "argv": ["%s %s %s" % (head, two, lit)]},
                {"kind": "alias-table/operator/not+%s->%s/words" % (one, two), "argv": (head.upper() + " " + two.upper()).split(" ") + [lit]}]})
    for g in lang.ARITH_ALIASES:
        add(["select", "size", "@", "2", "from", ".", "where", "size", "@", "2", ">", "1", "order", "by", "size", "@", "2", "desc"], "@", g, "arithmetic")
    for g in lang.ROOT_OPTION_ALIASES:
        if g[0] in ("maxdepth", "mindepth"):
            add(["name", "from", ".", "@", "1", "where", "size", ">", "1"], "@", g, "root-option")
        elif g[0] == "regexp":
            add(["name", "from", "s*", "@"], "@", g, "root-option")
        else:
            add(["name", "from", ".", "@", "where", "size", ">", "1"], "@", g, "root-option")
    fm = []
    for f in lang.FORMATS:
        fm += [{"kind": "alias-table/format/%s/upper" % f, "argv": ["name from . limit 2 into " + f.upper()]},
               {"kind": "alias-table/format/%s/mixed" % f, "argv": ["name", "from", ".", "limit", "2", "into", mixed(f)]}]
        cases.append({"toks": ["name", "from", ".", "limit", "2", "into", f], "renderings": fm[-2:]})
    # optional parentheses of argument-less functions, in the select list and in WHERE
    for f in ["curdate", "current_date", "current_user", "current_uid", "has_caps"]:
        cases.append({"toks": ["select", "name", ",", f, "(", ")", "from", ".", "limit", "2"],
                      "renderings": [{"kind": "optional/no-parens/select/" + f, "argv": ["select name , %s from . limit 2" % f]}]})
    cases.append({"toks": ["name", "from", ".", "where", "has_caps", "(", ")", "or", "size", ">", "1"],
                  "renderings": [{"kind": "optional/no-parens/where/has_caps", "argv": ["name from . where has_caps or size > 1"]}]})
    cases.append({"toks": ["name", "from", ".", "where", "modified", "<", "curdate", "(", ")", "and", "size", ">", "1"],
                  "renderings": [{"kind": "optional/no-parens/where/curdate", "argv": ["name from . where modified < curdate and size > 1"]}]})
    return cases


# ---------------------------------------------------------------- running

_Q = re.compile(r"\] &query = ((?:Ok|Err)\(.*?)(?=^\[|^Search: |\Z)", re.S | re.M)


def run(out, base, argv):
    res = runner.run(argv, cwd=base, cfg=CFG)
    out.evals += 1
    if res.wall_timeout:
        out.inconclusive = True
        return None
    err = res.err.decode("utf-8", "replace")
    blocks = _Q.findall(err)
    # a diagnostic printed without a line end (an unusable root) is followed on its own line by the timing summary
    parsed = re.sub(r"Search: \d+ms\s*(Compute: \d+ms)?", "", blocks[-1]).strip() if blocks else None
    return {"status": res.status, "sig": res.sig, "out": res.out, "parsed": parsed, "stderr": err[-300:],
            "k02": k02_in_lexems(err)}


def unordered_form(out, toks):
    """Order-insensitive form of an output (row order is readdir / hash order unless ORDER BY is given)."""
    lows = [t.lower() for t in toks]
    fmt = lows[lows.index("into") + 1] if "into" in lows and lows.index("into") + 1 < len(lows) else "tabs"
    if fmt == "json":
        try:
            import json
            return sorted(json.dumps(o, sort_keys=True) for o in json.loads(out.decode("utf-8", "replace")))
        except Exception:
            return [out]
    if fmt == "html":
        return sorted(re.findall(rb"<tr>.*?</tr>", out, re.S))
    if fmt == "list":
        return sorted(out.split(b"\0"))
    return sorted(out.split(b"\n"))


def first_diff(a, b):
    la, lb = (a or "").splitlines(), (b or "").splitlines()
    for i, (x, y) in enumerate(zip(la, lb)):
        if x != y:
            return "line %d: %r vs %r" % (i, x.strip()[:80], y.strip()[:80])
    return "length %d vs %d lines" % (len(la), len(lb))


def check(case):
    out = Outcome()
    base = tree_base()
    toks = case["toks"]
    canon_text = " ".join(toks)
    ref = run(out, base, [canon_text])
    if ref is None:
        return out
    if ref["sig"] is not None or ref["status"] not in (0, 1) or ref["parsed"] is None or not ref["parsed"].startswith("Ok("):
        out.add("C11/canonical-rendering-rejected", query=canon_text, status=ref["status"], stderr=ref["stderr"])
        return out
    ordered = "order" in [t.lower() for t in toks]
    has_where = "where" in [t.lower() for t in toks]
    nt = []
    for r in case["renderings"]:
        argv = r["argv"]
        if argv == [canon_text]:
            continue
        if root_word_violation(argv, toks):
            if not case.get("probe_known"):
                out.excluded += 1
                continue
            got = run(out, base, argv)
            if got is not None and (got["parsed"] != ref["parsed"] or got["status"] != ref["status"]):
                out.add("C11/split/root-word-shares-argument", canonical=canon_text, argv=argv,
                        diff=first_diff(ref["parsed"], got["parsed"]))
            continue
        got = run(out, base, argv)
        if got is None:
            continue
        kind = r["kind"]
        tag = "C11/" + kind.split("->")[0] if kind.startswith("alias/") else "C11/" + kind
        if kind.startswith("alias/") or kind.startswith("alias-table/"):
            tag = "C11/" + kind
        if got["parsed"] != ref["parsed"]:
            out.add(tag + "/parsed-query-differs", canonical=canon_text, argv=argv, diff=first_diff(ref["parsed"], got["parsed"]),
                    status=got["status"], stderr=got["stderr"][-160:] if got["parsed"] is None or got["parsed"].startswith("Err") else "")
            continue
        if got["status"] != ref["status"]:
            out.add(tag + "/status-differs", canonical=canon_text, argv=argv, status=[ref["status"], got["status"]])
            continue
        same = (got["out"] == ref["out"]) if ordered else (unordered_form(got["out"], toks) == unordered_form(ref["out"], toks))
        rnd = any(t.lower() in ("rand", "random") for t in toks)
        if not same and not rnd:
            out.add(tag + "/rows-differ", canonical=canon_text, argv=argv)
            continue
        if has_where or kind.startswith("alias"):
            nt.append("%s|%s" % (canon_text, "\x1f".join(argv)))
        out.classes.append(kind.split("/")[0] + "/" + kind.split("/")[1] if "/" in kind else kind)
    out.nt_keys = nt
    out.nontrivial = bool(nt)
    out.classes = sorted(set(out.classes))
    out.sample = {"canonical": canon_text, "renderings": [r["argv"] for r in case["renderings"][:3]]}
    return out


PINNED = [
    ("word-operators", {"toks": ["name", "from", ".", "where", "name", "notlike", "'%.txt'", "and", "ext", "!==", "md"],
                        "renderings": [{"kind": "alias/op/!==->ene", "argv": ["name from . where name notlike '%.txt' and ext ene md"]},
                                       {"kind": "alias/op/notlike->not like", "argv": ["name from . where name not like '%.txt' and ext !== md"]}]}),
    ("eeq-notrx", {"toks": ["name", "from", ".", "where", "name", "!=~", "'^a'", "or", "ext", "===", "log"],
                   "renderings": [{"kind": "alias/op/!=~->notrx", "argv": ["name from . where name notrx '^a' or ext === log"]},
                                  {"kind": "alias/op/===->eeq", "argv": ["name from . where name !=~ '^a' or ext eeq log"]}]}),
    ("curdate-without-brackets", {"toks": ["select", "name", ",", "curdate", "(", ")", "from", ".", "limit", "2"],
                                  "renderings": [{"kind": "optional/no-parens/select/curdate", "argv": ["select name , curdate from . limit 2"]}]}),
    ("boolean-function-without-brackets", {"toks": ["name", "from", ".", "where", "has_caps", "(", ")", "or", "size", ">", "1"],
                                           "renderings": [{"kind": "optional/no-parens/where/has_caps", "argv": ["name from . where has_caps or size > 1"]}]}),
    ("order-by-split-after-comma", {"toks": ["name", ",", "size", "from", ".", "order", "by", "size", "desc", ",", "name"],
                                    "renderings": [{"kind": "split/subset", "argv": ["name , size from .", "order by size desc ,", "name"]},
                                                   {"kind": "split/each", "argv": ["name", ",", "size", "from", ".", "order", "by", "size", "desc", ",", "name"]}]}),
]


_ROOT_LEXEM = re.compile(r'(?:From|Comma),\s*RawString\(\s*"((?:[^"\\]|\\.)*)"')


def k02_in_lexems(stderr_text):
    """K02 seen from the lexem dump of a run (`debug = true`): a root lexem containing a blank, comma or bracket."""
    i = stderr_text.find("&self.lexems = [")
    if i < 0:
        return False
    block = stderr_text[i:]
    return any(any(c in m.group(1) for c in " ,(){}") for m in _ROOT_LEXEM.finditer(block))


def _fuzz_tokens(text):
    out, cur, quote = [], "", None
    for c in text:
        if quote:
            cur += c
            if c == quote:
                quote = None
        elif c == " ":
            if cur:
                out.append(cur)
                cur = ""
        else:
            if c in "'\"`":
                quote = c
            cur += c
    if quote:
        return None
    if cur:
        out.append(cur)
    return out


def supplement(tier, seed):
    """libFuzzer campaign on the split-invariance target; artifacts are re-judged on the real binary through the
    parsed-query oracle of this module."""
    from .. import fuzzrun
    ok, msg = fuzzrun.build_targets()
    if not ok:
        return {"available": False, "reason": msg[-300:]}
    res = fuzzrun.campaign("split_invariance", 10000 if tier == "quick" else 400000, seed)
    arts = res.pop("artifacts", [])
    res["artifacts_found"] = len(arts)
    res["reproduced_on_binary"] = 0
    res["not_reproduced_discarded"] = 0
    vio = []
    base = tree_base()
    for kind, data in arts[:20]:
        try:
            mask = data[0] | (data[1] << 8)
            toks = _fuzz_tokens(data[2:].decode("utf-8"))
        except Exception:
            toks = None
        if not toks or len(toks) < 2:
            res["not_reproduced_discarded"] += 1
            continue
        split = [toks[0]]
        for i, t in enumerate(toks[1:], 1):
            if mask & (1 << ((i - 1) % 16)):
                split.append(t)
            else:
                split[-1] += " " + t
        o = Outcome()
        a = run(o, base, [" ".join(toks)])
        b = run(o, base, split)
        if a and b and a["parsed"] is not None and a["parsed"].startswith("Ok(") and (a["parsed"] != b["parsed"]) \
                and not root_word_violation(split, toks) and not b.get("k02"):
            res["reproduced_on_binary"] += 1
            vio.append(({"toks": toks, "renderings": [{"kind": "split/fuzz", "argv": split}]},
                        [{"sig": "C11/split/fuzz/parsed-query-differs", "detail": {"argv": split, "diff": first_diff(a["parsed"], b["parsed"])}}]))
        else:
            res["not_reproduced_discarded"] += 1
    res["violations"] = vio
    return res
