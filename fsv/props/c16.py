"""C16 Every documented scalar function computes its documented value for any argument (DESIGN.md 4, C16)."""
import base64
import datetime
import math
import os
import re

from hypothesis import strategies as st

from .. import lang, model, runner
from ..engine import Outcome

ID = "C16"
LEVEL = "exploration"
RULE = ("per function a typed argument generator (empty-valued column, ASCII, Latin-1/Greek/Cyrillic/CJK letters, "
        "combining marks, whitespace runs incl. tab/NBSP/ideographic space, numeric strings incl. negative, fractional "
        "and 2^63 +- 1; SUBSTR positions/lengths in -len-2..len+2; overlapping/absent/whole-string REPLACE needles; "
        "1..4-argument CONCAT/CONCAT_WS/COALESCE; dates at month/year ends and 29 February) x nesting depth <= 3 x "
        "applied to literals and to name/ext/size/modified of generated entries; up to 6 expressions per run. Oracle: a "
        "Python reference per function written from the usage table; composition is checked through the reference "
        "applied to the reference value of the inner call; base64 round trip law. Non-trivial = an argument is "
        "non-ASCII, empty, out of range or the call is nested; distinct by (expression, entry).")
ASSUMPTIONS = [
    "characters whose case mapping differs between Unicode versions are avoided; FORMAT_TIME is compared by parsing its units back to seconds",
    "BIN/HEX/OCT of negative numbers, SUBSTR position 0 / length 0 / out-of-range positions (only: result is a substring), RANDOM and "
    "free-form English dates are not asserted",
]


class DC(Exception):
    """don't care"""


ASCII_S = ["abc", "Hello World", "a", "MiXeD cAsE", "x1y2", "  pad  ", "tab\tsep", "aaa", "a-b_c.d", "aaaa", "abcabc",
           "one two  three", "ALLCAPS", "q", "", ""]      # the empty string is an argument like any other
UNI_S = ["éàü", "αβγ", "Жук", "日本語", "éa", "naïve café", " nb ", "　wide　", "ÀÉÎ", "straße",
         "ǅ x", "ﬁn", "ı", "Ωmega"]
NUM_S = ["0", "5", "-3", "2.5", "100", "255", "1024", "1000", "1000000", "0.001", "0.125", "243", "125", "216", "-9223372036854775808", "-9223372036854775809", "9223372036854775807", "9223372036854775808", "-0.5", "1e3", "16", "8", "1",
         # arguments of the wrong kind: the documented outcome is an empty value (or a status-2 diagnostic), never a crash
         "abc", "1x", "5 ", "0x10"]
DATE_S = ["2020-02-29", "2021-02-28", "2020-12-31", "2021-01-01", "2020-03-01 00:00:00", "2019-12-31 23:59:59",
          "2024-02-29 12:30:00", "2020:05:06", "2020-13-01", "2023-1-5", "1999-12-31"]
COLS_S = ["name", "ext"]
TREE_NAMES = ["Hello World.TXT", "éàü.md", "README", "日本語.tar.gz", "  sp  .x", "aaa.aaa", "Жук", "a"]


def examples(tier):
    return 14000 if tier == "quick" else 200000


def lit(s):
    return ["lit", s]


@st.composite
def s_expr(draw, depth, force_call=False):
    """string-valued expression"""
    k = "call" if force_call else draw(st.sampled_from(["lit", "uni", "col", "call", "call", "call"] if depth > 0 else ["lit", "uni", "uni", "col"]))
    if k == "lit":
        return lit(draw(st.sampled_from(ASCII_S)))
    if k == "uni":
        return lit(draw(st.sampled_from(UNI_S)))
    if k == "col":
        return ["col", draw(st.sampled_from(COLS_S))]
    f = draw(st.sampled_from(["lower", "upper", "initcap", "trim", "ltrim", "rtrim", "substr", "substr", "replace", "replace",
                              "concat", "concat_ws", "coalesce", "to_base64", "from_base64_of_to"]))
    a = draw(s_expr(depth - 1))
    if f == "substr":
        pos = draw(st.sampled_from(list(range(-14, 15))))
        args = [a, ["num", str(pos)]]
        if draw(st.booleans()):
            args.append(["num", str(draw(st.sampled_from([0, 1, 2, 3, 5, 20, 2 ** 31, 2 ** 64 - 1, 2 ** 64, 10 ** 20])))])
        return ["call", "substr", args]
    if f == "replace":
        needle = draw(st.sampled_from(["a", "aa", "b", "abc", " ", "é", "日", "zz", "A", "l", "o W", "."]))
        to = draw(st.sampled_from(["X", "yy", "é", "-", "aa", "a"]))
        return ["call", "replace", [a, lit(needle), lit(to)]]
    if f in ("concat", "coalesce"):
        n = draw(st.sampled_from([0, 1, 2, 3]))
        return ["call", f, [a] + [draw(s_expr(0)) for _ in range(n)]]
    if f == "concat_ws":
        n = draw(st.sampled_from([1, 2, 3]))
        return ["call", f, [lit(draw(st.sampled_from(["-", ", ", "x", "é"])))] + [draw(s_expr(0)) for _ in range(n)] + ([a] if draw(st.booleans()) else [])]
    if f == "from_base64_of_to":
        return ["call", "from_base64", [["call", "to_base64", [a]]]]
    return ["call", f, [a]]


@st.composite
def n_expr(draw, depth, force_call=False):
    """number-valued expression (text of a number)"""
    k = "call" if force_call else draw(st.sampled_from(["num", "num", "call", "call", "len", "size"] if depth > 0 else ["num", "size", "len"]))
    if k == "num":
        return ["num", draw(st.sampled_from(NUM_S))]
    if k == "size":
        return ["col", "size"]
    if k == "len":
        return ["call", "length", [draw(s_expr(max(0, depth - 1)))]]
    f = draw(st.sampled_from(["abs", "power", "sqrt", "log", "log2", "ln", "exp", "least", "greatest"]))
    a = draw(n_expr(depth - 1))
    if f == "power":
        return ["call", "power", [a, ["num", draw(st.sampled_from(["0", "1", "2", "3", "0.5", "-1"]))]]]
    if f == "log2":
        return ["call", "log", [a, ["num", draw(st.sampled_from(["2", "10", "16", "3", "5", "6", "100"]))]]]
    if f in ("least", "greatest"):
        return ["call", f, [a] + [draw(n_expr(0)) for _ in range(draw(st.sampled_from([1, 2, 3])))]]
    return ["call", f, [a]]


@st.composite
def top_expr(draw, tier):
    kind = draw(st.sampled_from(["s", "s", "s", "n", "n", "base", "time", "date", "date", "len"]))
    d = draw(st.sampled_from([1, 2, 3]))
    if kind == "s":
        return draw(s_expr(d, True))
    if kind == "n":
        return draw(n_expr(d, True))
    if kind == "len":
        return ["call", "length", [draw(s_expr(d - 1))]]
    if kind == "base":
        return ["call", draw(st.sampled_from(["bin", "hex", "oct"])), [draw(n_expr(d - 1))]]
    if kind == "time":
        return ["call", "format_time", [["num", str(draw(st.sampled_from([0, 1, 59, 60, 61, 146, 3599, 3600, 3661, 86399, 86400, 90061, 9999999])))]]]
    f = draw(st.sampled_from(["year", "month", "day", "dow", "dayofweek"]))
    arg = draw(st.sampled_from([["lit", x] for x in DATE_S] + [["col", "modified"], ["col", "modified"]]))
    return ["call", f, [arg]]


@st.composite
def strategy_(draw, tier):
    names = draw(st.lists(st.sampled_from(TREE_NAMES), min_size=1, max_size=3, unique=True))
    files = {n: {"size": draw(st.sampled_from([0, 5, 255, 1024, 4097])),
                 "mtime": draw(st.sampled_from([1582934400, 1609459199, 1583020800, 1577836800, 951782400]))} for n in names}
    exprs = [draw(top_expr(tier)) for _ in range(draw(st.sampled_from([2, 4, 6])))]
    return {"files": files, "exprs": exprs, "curly": draw(st.sampled_from([False, False, True]))}


def strategy(tier):
    return strategy_(tier)


# ---------------------------------------------------------------- rendering

def render(e, curly=False):
    k = e[0]
    if k == "lit":
        return lang.quote(e[1])
    if k == "num":
        return e[1] if re.match(r"^-?[0-9.e]+$", e[1]) else lang.quote(e[1])
    if k == "col":
        return e[1]
    o, c = ("{", "}") if curly else ("(", ")")
    return "%s%s%s%s" % (e[1], o, ", ".join(render(a, curly) for a in e[2]), c)


# ---------------------------------------------------------------- reference

_I64 = re.compile(r"^[+-]?\d+$")
_F64 = re.compile(r"^[+-]?(\d+\.?\d*([eE][+-]?\d+)?|\.\d+([eE][+-]?\d+)?|inf|infinity|nan)$", re.I)


def parse_i64(s):
    if not _I64.match(s):
        return None
    v = int(s)
    return v if -2 ** 63 <= v < 2 ** 63 else None


def parse_f64(s):
    if not _F64.match(s):
        return None
    try:
        return float(s)
    except ValueError:
        return None


def num_text(x):
    """Reference numbers are kept as ('n', float); text form only used when fed to a string function."""
    if x == int(x) and abs(x) < 1e15:
        return str(int(x))
    return repr(x)


def as_text(v):
    return num_text(v[1]) if v[0] in ("n", "x") else v[1]


WS = " \t 　"


def parse_date(s):
    m = re.match(r"(\d{4})(-|:)(\d{1,2})(-|:)(\d{1,2})", s)
    if not m:
        raise DC()
    try:
        return datetime.date(int(m.group(1)), int(m.group(3)), int(m.group(5)))
    except ValueError:
        return None


def ref(e, ent, tz="UTC"):
    """('s', text) | ('n', float); raises DC for unasserted cases."""
    k = e[0]
    if k == "lit":
        return ("s", e[1])
    if k == "num":
        return ("s", e[1])
    if k == "col":
        c = e[1]
        if c == "size":
            return ("s", str(ent.st.st_size))
        if c == "modified":
            return ("s", model.fmt_dt(int(ent.st.st_mtime), tz))
        return ("s", model.column(ent, c))
    f = e[1]
    args = [ref(a, ent, tz) for a in e[2]]
    t = [as_text(a) for a in args]
    if f == "lower":
        return ("s", t[0].lower())
    if f == "upper":
        return ("s", t[0].upper())
    if f == "initcap":
        # "first letter of each word upper case, all other letters lower case": nothing is said about the blanks
        # between the words, so they stay as they are
        res, start = [], True
        for ch in t[0]:
            res.append(ch.upper() if start else ch.lower())
            start = ch.isspace()
        return ("s", "".join(res))
    if f == "length":
        return ("n", float(len(t[0])))
    if f == "trim":
        return ("s", t[0].strip(WS))
    if f == "ltrim":
        return ("s", t[0].lstrip(WS))
    if f == "rtrim":
        return ("s", t[0].rstrip(WS))
    if f == "substr":
        s = t[0]
        pos = int(t[1])
        ln = int(t[2]) if len(t) > 2 else None
        if pos == 0 or abs(pos) > len(s) or (ln is not None and ln < 0):
            raise DC()
        start = pos - 1 if pos > 0 else len(s) + pos
        return ("s", s[start:] if ln is None else s[start:start + ln])
    if f == "replace":
        return ("s", t[0].replace(t[1], t[2]))
    if f == "concat":
        return ("s", "".join(t))
    if f == "concat_ws":
        return ("s", t[0].join(t[1:]))
    if f == "coalesce":
        for x in t:
            if x != "":
                return ("s", x)
        return ("s", "")
    if f == "to_base64":
        return ("s", base64.b64encode(t[0].encode("utf-8")).decode())
    if f == "from_base64":
        try:
            return ("s", base64.b64decode(t[0], validate=True).decode("utf-8"))
        except Exception:
            raise DC()
    if f in ("bin", "hex", "oct"):
        v = parse_i64(t[0])
        if v is None:
            return ("s", "")
        if v < 0:
            raise DC()
        return ("s", format(v, {"bin": "b", "hex": "x", "oct": "o"}[f]))
    if f in ("abs", "sqrt", "ln", "exp", "log", "power", "least", "greatest"):
        v = parse_f64(t[0])
        if v is None:
            return ("s", "")
        try:
            if f == "abs":
                r = abs(v)
            elif f == "sqrt":
                r = math.sqrt(v)
            elif f == "ln":
                r = math.log(v)
            elif f == "exp":
                r = math.exp(v)
            elif f == "log":
                b = parse_f64(t[1]) if len(t) > 1 else 10.0
                if b is None:
                    return ("s", "")
                r = math.log(v) / math.log(b)
                # the logarithm of an exact power of the base is that exponent, not a neighbour of it (the documentation's
                # own example is `log(1000)`; `where log(size) = 3` must find a 1000-byte file)
                if v > 0 and b > 1 and b == int(b):
                    k = round(r)
                    if abs(k) <= 60 and b ** k == v:
                        return ("x", float(k))
            elif f == "power":
                p = parse_f64(t[1]) if len(t) > 1 else 0.0
                if p is None:
                    return ("s", "")
                r = math.pow(v, p)
            else:
                # an argument that is no number makes the result empty wherever it stands (the smallest / largest of
                # the values cannot depend on the order of the arguments)
                others = [parse_f64(y) for y in t[1:]]
                if any(x is None for x in others):
                    return ("s", "")
                r = min([v] + others) if f == "least" else max([v] + others)
        except (ValueError, OverflowError, ZeroDivisionError):
            raise DC()
        if r != r or abs(r) == float("inf") or abs(r) > 1e15:
            raise DC()
        return ("n", r)
    if f == "format_time":
        v = parse_i64(t[0])
        if v is None or v < 0:
            return ("s", "")
        return ("t", float(v))
    if f in ("year", "month", "day", "dow", "dayofweek"):
        d = parse_date(t[0])
        if d is None:
            return ("s", "")
        if f == "year":
            return ("n", float(d.year))
        if f == "month":
            return ("n", float(d.month))
        if f == "day":
            return ("n", float(d.day))
        return ("n", float((d.isoweekday() % 7) + 1))
    raise DC()


_UNITS = {"d": 86400, "h": 3600, "m": 60, "s": 1, "ms": 0.001, "μs": 1e-6, "us": 1e-6, "ns": 1e-9, "y": 31557600, "mon": 2630016, "w": 604800}


def time_seconds(text):
    total = 0.0
    for part in re.split(r"[,\s]+", text.strip()):
        m = re.match(r"^(\d+)([a-zμ]+)$", part)
        if not m or m.group(2) not in _UNITS:
            return None
        total += int(m.group(1)) * _UNITS[m.group(2)]
    return total


def nontrivial_expr(e):
    if e[0] == "lit":
        return any(ord(c) > 127 for c in e[1]) or e[1] == ""
    if e[0] == "col":
        return e[1] == "ext"
    if e[0] == "call":
        return any(a[0] == "call" for a in e[2]) or any(nontrivial_expr(a) for a in e[2]) or \
            (e[1] == "substr" and (int(e[2][1][1]) < 0 or int(e[2][1][1]) > 6))
    return False


def check(case):
    out = Outcome()
    cdir = runner.new_case_dir()
    base = os.path.join(cdir, "t")
    os.mkdir(base)
    nt = []
    try:
        for n, a in case["files"].items():
            p = os.path.join(base, n)
            with open(p, "wb") as f:
                f.truncate(a["size"])
            os.utime(p, (a["mtime"], a["mtime"]))
        ents = {e.name: e for e in model.observe(base)}
        texts = [render(e, case["curly"]) for e in case["exprs"]]
        q = "select name, " + ", ".join(texts) + " from . into list"
        res = runner.run([q], cwd=base)
        out.evals += 1
        if res.wall_timeout:
            out.inconclusive = True
            return out
        if res.status != 0 or res.sig is not None or res.err:
            out.add("C16/run-failed", query=q, status=res.status, signal=res.sig, stderr=res.err[:300])
            return out
        try:
            rows = runner.rows(res.out, 1 + len(texts))
        except ValueError as e:
            out.add("C16/list-malformed", query=q, err=str(e))
            return out
        if {r[0] for r in rows} != set(ents):
            out.add("C16/rows", query=q, got=[r[0] for r in rows], want=sorted(ents))
            return out
        for r in rows:
            ent = ents[r[0]]
            for e, t, cell in zip(case["exprs"], texts, r[1:]):
                fname = e[1] if e[0] == "call" else e[0]
                try:
                    want = ref(e, ent)
                except DC:
                    # weaker predicate for ABS outside the range asserted digit by digit: never below zero, never a crash
                    if e[0] == "call" and e[1] == "abs":
                        try:
                            if float(cell) < 0:
                                out.add("C16/abs/negative", expr=t, entry=ent.name, cell=cell)
                        except ValueError:
                            pass
                    # weaker predicate for SUBSTR outside the asserted range: still a substring of its argument
                    if e[0] == "call" and e[1] == "substr":
                        try:
                            src = as_text(ref(e[2][0], ent))
                            if cell not in src:
                                out.add("C16/substr/not-a-substring", expr=t, entry=ent.name, cell=cell, source=src)
                        except DC:
                            pass
                    continue
                ok = True
                if want[0] == "s":
                    ok = cell == want[1]
                elif want[0] == "x":
                    try:
                        ok = float(cell) == want[1]
                    except ValueError:
                        ok = False
                elif want[0] == "n":
                    try:
                        v = float(cell)
                        ok = v == want[1] or abs(v - want[1]) <= 1e-12 * max(abs(want[1]), 1e-300)
                    except ValueError:
                        ok = False
                else:
                    secs = time_seconds(cell)
                    ok = secs is not None and abs(secs - want[1]) < 1e-6
                if not ok:
                    out.add("C16/%s/%s" % (fname, "nested" if any(a[0] == "call" for a in (e[2] if e[0] == "call" else [])) else "direct"),
                            expr=t, entry=ent.name, cell=cell, reference=want[1])
                if nontrivial_expr(e):
                    nt.append("%s|%s" % (t, ent.name))
                out.classes.append("f=" + fname)
    finally:
        runner.rmtree(cdir)
    out.nt_keys = nt
    out.nontrivial = bool(nt)
    out.classes = sorted(set(out.classes))
    out.sample = {"select": [render(e) for e in case["exprs"]][:4], "files": sorted(case["files"])}
    return out


def _f():
    return {"Hello World.TXT": {"size": 255, "mtime": 1582934400}, "README": {"size": 0, "mtime": 1609459199}}


def _c(f, *args):
    return ["call", f, list(args)]


PINNED = [
    ("strings", {"files": _f(), "curly": False, "exprs": [
        _c("upper", _c("substr", _c("lower", ["col", "name"]), ["num", "2"], ["num", "3"])), _c("substr", lit("日本語é"), ["num", "-2"]),
        _c("replace", lit("aaaa"), lit("aa"), lit("a")), _c("concat_ws", lit("-"), lit("a"), ["col", "ext"], lit("c")),
        _c("coalesce", ["col", "ext"], lit("none")), _c("initcap", lit("hELLO  wORLD"))]}),
    ("numbers", {"files": _f(), "curly": True, "exprs": [
        _c("hex", _c("abs", ["num", "-255"])), _c("power", ["col", "size"], ["num", "2"]), _c("log", ["num", "8"], ["num", "2"]),
        _c("least", ["num", "3"], ["num", "1"], ["num", "2"]), _c("length", lit("éa")), _c("bin", ["num", "2.5"])]}),
    ("dates-and-base64", {"files": _f(), "curly": False, "exprs": [
        _c("dow", lit("2020-03-01")), _c("day", ["col", "modified"]), _c("month", lit("2020-13-01")), _c("year", lit("2020:05:06")),
        _c("from_base64", _c("to_base64", lit("naïve café"))), _c("format_time", ["num", "90061"])]}),
]
