"""C19 Archive search lists each zip member exactly once and changes nothing else (DESIGN.md 4, C19)."""
import collections
import functools
import io
import json
import os
import stat
import zipfile

from hypothesis import strategies as st

from .. import model, runner, trees
from ..engine import Outcome
from ..refs import glob
from . import c05

ID = "C19"
LEVEL = "exploration"
RULE = ("generated trees with zip files written by Python's zipfile (stored/deflated, 0..12 members, nested directory "
        "members, names with spaces/unicode, sizes 0..100 KiB, every file-type and permission pattern in external_attr, "
        "dates across months/years) under extensions .zip/.jar/.war/.ear in lower/upper/mixed case, a valid zip under a "
        "non-zip extension, an overridden is_zip_archive list, archives at several depths and at the depth window's "
        "edge; queries plain / WHERE on name, size, is_dir / ORDER BY size or name with LIMIT / count(*), sum(size); the "
        "process clock pinned to month ends and 29 February. Oracle: rows == rows of the same query without `archives` "
        "(run) + one model row per member (`[archive path] member`, ZipInfo.file_size, directory flag, "
        "stat.filemode(external_attr >> 16), date_time) filtered by the same predicate; ordered+limited results are the "
        "top N of the unlimited ones. Fault part: every truncation length of a small archive, every single-byte flip in "
        "its central directory / end record, empty file, directory named x.zip, unreadable archive (uid 65534): no "
        "panic, no hang, status 0/1, all on-disk rows present; members required when zipfile still reads the same "
        "members. Non-trivial = >= 2 archives or >= 3 members and the WHERE/LIMIT separates members from on-disk rows.")
ASSUMPTIONS = [
    "columns documented as unavailable for members, zip64, encryption and nested zips are not asserted",
    "for damaged archives member rows are only required when Python's zipfile reads the damaged bytes to the same member list",
]
EXHAUSTIVE_NOTE = "every truncation point and every single-byte flip (0xFF) in the central directory and end record of a small three-member archive"

ZIP_NAMES = ["a.zip", "b.ZIP", "c.Jar", "d.war", "e.EAR", "f.zip", "lib.jar", "with space.zip", "ünï.zip"]
OTHER_NAMES = ["data.bin", "zipped.txt", "g.zipx", "h.zip.bak"]
MEMBER_NAMES = ["m.txt", "dir/", "dir/inner.log", "dir/sub/", "dir/sub/deep.rs", "sp ace.txt", "ünï.md", "big.bin", "e", ".hid",
                "x.zip", "README", "a/b/c/d.txt", "dir/.inner", ".hd/", ".hd/plain.txt", "a/.b/", "a/.b/c",
                # a dot in a directory name is no extension of what lies below it
                "v1.2/README", "conf.d/.gitignore", "a.b/", "x.tar.gz", "dir/x."]
CLOCKS = [None, None, 1706702400, 1709208000, 1698753600, 1703980800]   # real, 2024-01-31, 2024-02-29, 2023-10-31, 2023-12-31


def examples(tier):
    return 5600 if tier == "quick" else 70000


@st.composite
def member(draw, name):
    isdir = name.endswith("/")
    tchar = "d" if isdir else draw(st.sampled_from(["-", "-", "-", "-", "l", "p", "0", "s", "l"]))
    ifmt = {"-": stat.S_IFREG, "d": stat.S_IFDIR, "l": stat.S_IFLNK, "p": stat.S_IFIFO, "0": 0, "s": stat.S_IFSOCK}[tchar]
    perm = draw(st.sampled_from([0o644, 0o755, 0o600, 0o4755, 0o000, 0o777, 0o2750]))
    m = {"n": name, "mode": ifmt | perm,
         "dt": [draw(st.sampled_from([1980, 1999, 2020, 2024, 2037])), draw(st.sampled_from([1, 2, 4, 11, 12])),
                draw(st.sampled_from([1, 15, 28, 29, 30, 31])), draw(st.sampled_from([0, 12, 23])), draw(st.sampled_from([0, 30, 59])),
                draw(st.sampled_from([0, 2, 58]))],
         "deflate": draw(st.booleans())}
    # one member in eight cannot be unpacked (encrypted, or an unsupported compression method): it is a member all the same
    odd = draw(st.sampled_from([None] * 7 + ["enc", "method"]))
    if odd == "enc" and not isdir:
        m["enc"] = True
    elif odd == "method" and not isdir:
        m["method"] = 6
    # clamp impossible days
    y, mo, d = m["dt"][:3]
    while True:
        try:
            import datetime
            datetime.date(y, mo, d)
            break
        except ValueError:
            d -= 1
    m["dt"][2] = d
    if isdir:
        m["size"] = 0
    else:
        m["size"] = draw(st.sampled_from([0, 1, 10, 100, 4096, 100000]))
    return m


@st.composite
def strategy_(draw, tier):
    leaf = st.sampled_from([{"t": "f", "c": ""}, {"t": "f", "c": "x" * 50}, {"t": "f", "c": "y" * 5000}])
    spec = trees.grow(draw, [0, 2, 4, 8], trees.names("plain", "ext"), leaf, dir_ratio=(1, 3), max_depth=3)
    dirs = [()] + trees.dirs_of(spec)
    nz = draw(st.sampled_from([1, 1, 2, 3]))
    for i in range(nz):
        d = draw(st.sampled_from(dirs))
        nm = draw(st.sampled_from(ZIP_NAMES + ZIP_NAMES + OTHER_NAMES))
        names = draw(st.lists(st.sampled_from(MEMBER_NAMES), min_size=0, max_size=draw(st.sampled_from([0, 1, 3, 6, 12])), unique=True))
        members = [draw(member(n)) for n in names]
        trees.subtree(spec, d)["%d%s" % (i, nm)] = {"t": "z", "members": members}
    q = draw(st.sampled_from(["plain", "plain", "where-size", "where-name", "where-isdir", "order-limit", "aggregate",
                              "where-hidden", "where-dates", "where-dates-ne", "where-isfile"]))
    case = {"kind": "search", "tree": spec, "q": q, "mode": draw(st.sampled_from(["", "bfs", "dfs"])),
            "clock": draw(st.sampled_from(CLOCKS)),
            "window": draw(st.sampled_from([None, None, None, [0, 1], [1, 2], [2, 0], [2, 2]])),
            "cfg": draw(st.sampled_from([None, None, None, [".bin"], [".zip", ".txt"], []])),
            "n": draw(st.sampled_from([1, 2, 3, 5, 8])), "thr": draw(st.sampled_from([0, 1, 10, 100, 5000])),
            "desc": draw(st.booleans())}
    return case


def strategy(tier):
    return strategy_(tier)


SMALL = {"t": "z", "members": [{"n": "one.txt", "size": 3, "mode": stat.S_IFREG | 0o644, "dt": [2020, 1, 2, 3, 4, 6]},
                               {"n": "d/", "size": 0, "mode": stat.S_IFDIR | 0o755, "dt": [2020, 1, 2, 3, 4, 6]},
                               {"n": "d/two.log", "size": 10, "mode": stat.S_IFREG | 0o600, "dt": [2021, 12, 31, 23, 59, 58], "deflate": True}]}


NEIGHBOURS = ["n%d.txt" % i for i in range(8)] + ["sub/in.txt", "sub/in2.txt"]


def enumerate_cases(tier):
    raw = trees.zip_bytes(SMALL)
    cases = []
    for k in range(len(raw)):
        cases.append({"kind": "damage", "damage": ["truncate", k]})
    # central directory + end record start where the local entries end
    cd = raw.rfind(b"PK\x01\x02")
    cd = raw.find(b"PK\x01\x02")
    for pos in range(cd, len(raw)):
        cases.append({"kind": "damage", "damage": ["flip", pos]})
    # flips of single bits as well: a local-header offset that is off by one still lies inside the archive, so the
    # archive opens and only that member cannot be read (0xFF sends the offset beyond the end: the whole archive is
    # rejected, and the per-member path was never reached - found by a seeded change ported to the current tree)
    for mask in (0x01, 0x10):
        for pos in range(cd, len(raw)):
            cases.append({"kind": "damage", "damage": ["flip%d" % mask, pos]})
    # things that carry an archive's name and are no regular file: never opened, the search goes on
    for what in ("fifo", "socket", "dir", "dangling", "loop"):
        for mode in ("", "dfs"):
            cases.append({"kind": "not-a-file", "what": what, "mode": mode})
    # an extended attribute of the ARCHIVE file is no attribute of its members
    for mode in ("", "dfs"):
        cases.append({"kind": "archive-xattr", "mode": mode})
    # name decomposition of members below directories that carry a dot themselves (always run, not left to the draw)
    dotted = [{"n": n, "size": 0 if n.endswith("/") else 7, "mode": (stat.S_IFDIR | 0o755) if n.endswith("/") else (stat.S_IFREG | 0o644),
               "dt": [2020, 1, 2, 3, 4, 6]} for n in ("v1.2/", "v1.2/README", "conf.d/.gitignore", "a.b/", "src/main.rs", "x.tar.gz", "dir/x.", ".hid", "top.TXT")]
    for mode in ("", "dfs"):
        for q in ("plain", "where-size"):
            cases.append({"kind": "search", "tree": {"d.zip": {"t": "z", "members": dotted}, "plain.txt": {"t": "f", "c": "x"},
                                                     "sub": {"t": "d", "ch": {"e.JAR": {"t": "z", "members": dotted[:3]}}}},
                          "q": q, "mode": mode, "clock": None, "window": None, "cfg": None, "n": 5, "thr": 0, "desc": False})
    cases.append({"kind": "damage", "damage": ["empty", 0]})
    cases.append({"kind": "damage", "damage": ["directory", 0]})
    cases.append({"kind": "damage", "damage": ["unreadable", 0]})
    return cases


# ---------------------------------------------------------------- search cases

def lower_ascii(s):
    return "".join(c.lower() if c.isascii() else c for c in s)


def mode_text(mode):
    """ls -l notation; a stored mode without file-type bits (permissions only) is shown like a regular file."""
    t = stat.filemode(mode)
    return "-" + t[1:] if stat.S_IFMT(mode) == 0 else t


def member_rows(case, base, root_text="."):
    """Model rows (path, name, size, is_dir, mode, modified) for members of searched archives."""
    exts = case["cfg"] if case["cfg"] is not None else [".zip", ".jar", ".war", ".ear"]
    win = case["window"]
    rows = []
    narch = 0
    for e in model.observe(base, root_text):
        if e.kind != "f":
            continue
        if not any(lower_ascii(e.name).endswith(x) for x in exts):
            continue
        if win:
            mn, mx = win
            if not ((mn == 0 or e.level >= mn) and (mx == 0 or e.level <= mx)):
                continue
        try:
            zf = zipfile.ZipFile(e.abspath)
        except Exception:
            continue
        narch += 1
        for zi in zf.infolist():
            mode = zi.external_attr >> 16
            dt = "%04d-%02d-%02d %02d:%02d:%02d" % zi.date_time
            ftype = stat.S_IFMT(mode)
            isdir = stat.S_ISDIR(mode) if ftype else zi.filename.endswith("/")
            rows.append(("[%s] %s" % (e.path, zi.filename), "[%s] %s" % (e.name, zi.filename), str(zi.file_size),
                         model.b(isdir), mode_text(mode) if zi.external_attr else "", dt))
    return rows, narch


def member_ext(filename):
    """`ext` of a member: what follows the last dot of its LAST component (a leading dot marks a hidden name)."""
    comp = filename.rstrip("/").rsplit("/", 1)[-1]
    i = comp.rfind(".")
    return comp[i + 1:] if i > 0 else ""


def where_text(case):
    q = case["q"]
    if q == "where-size":
        return "size > %d" % case["thr"], lambda r: int(r[2]) > case["thr"]
    if q == "where-name":
        return "name like '%.txt'", lambda r: glob.like_match("%.txt", r[1])
    if q == "where-isdir":
        return "is_dir = true", lambda r: r[3] == "true"
    if q == "where-isfile":
        # a member is a file when its stored type says so (a link, a pipe or a socket is none), or, without a stored
        # type, when it is no directory
        return "is_file = true", lambda r: r[3] != "true" and (r[4] == "" or r[4].startswith("-"))
    if q == "where-hidden":
        # hidden as for an ordinary entry: the name of the member itself (its last component) begins with a dot
        return "is_hidden = true", lambda r: r[1].split("] ", 1)[1].rstrip("/").rsplit("/", 1)[-1].startswith(".")
    if q == "where-dates":
        # a member has no access time: it is neither before nor after anything, and the search goes on
        return "modified >= accessed", lambda r: False
    if q == "where-dates-ne":
        return "modified != accessed", lambda r: True
    return None, lambda r: True


def check_search(out, case):
    cdir = runner.new_case_dir()
    base = os.path.join(cdir, "t")
    os.mkdir(base)
    try:
        trees.materialize(base, case["tree"])
        cfg = None
        if case["cfg"] is not None:
            cfg = "is_zip_archive = [%s]\n" % ", ".join('"%s"' % e for e in case["cfg"])
        win = ""
        if case["window"]:
            mn, mx = case["window"]
            win = (" mindepth %d" % mn if mn else "") + (" maxdepth %d" % mx if mx else "")
        opts = win + ((" " + case["mode"]) if case["mode"] else "")
        cols = "path, name, size, is_dir, mode, modified"
        wt, pred = where_text(case)
        wclause = " where " + wt if wt else ""
        members, narch = member_rows(case, base)
        mkeep = [r for r in members if pred(r)]
        if case["q"] == "aggregate":
            q1 = "select count(*), sum(size) from . archives%s into list" % opts
            q0 = "select count(*), sum(size) from .%s into list" % opts
            r1 = c05.run_rows(out, base, q1, 2, "C19", cfg=cfg, clock=case["clock"])
            r0 = c05.run_rows(out, base, q0, 2, "C19", cfg=cfg, clock=case["clock"])
            if r1 and r0:
                wc = int(r0[0][0]) + len(members)
                ws = int(r0[0][1]) + sum(int(r[2]) for r in members)
                if [int(r1[0][0]), int(r1[0][1])] != [wc, ws]:
                    out.add("C19/aggregate", query=q1, got=list(r1[0]), want=[wc, ws], members=len(members))
        else:
            tail = ""
            if case["q"] == "order-limit":
                tail = " order by size%s, path" % (" desc" if case["desc"] else "")
            q1 = "select %s from . archives%s%s%s into list" % (cols, opts, wclause, tail)
            q0 = "select %s from .%s%s%s into list" % (cols, opts, wclause, tail)
            r1 = c05.run_rows(out, base, q1, 6, "C19", cfg=cfg, clock=case["clock"])
            r0 = c05.run_rows(out, base, q0, 6, "C19", cfg=cfg, clock=case["clock"])
            if r1 is None or r0 is None:
                return
            want = collections.Counter(r0) + collections.Counter(mkeep)
            got = collections.Counter(r1)
            if got != want:
                lost = list((want - got).elements())
                extra = list((got - want).elements())
                kind = "member" if any(r[0].startswith("[") for r in lost + extra) else "on-disk"
                what = "twice" if any(got[r] > 1 for r in extra) else ("lost" if lost else "extra")
                # which column differs, when the same path is present on both sides?
                col = ""
                lp = {r[0]: r for r in lost}
                for r in extra:
                    if r[0] in lp:
                        names = ["path", "name", "size", "is_dir", "mode", "modified"]
                        col = "/" + ",".join(n for n, a, b in zip(names, r, lp[r[0]]) if a != b)
                        what = "value"
                        break
                out.add("C19/rows/%s/%s%s" % (kind, what, col), query=q1, lost=[list(r) for r in lost[:4]], extra=[list(r) for r in extra[:4]],
                        config=case["cfg"], window=case["window"])
            elif case["q"] == "order-limit":
                # sortedness of the unlimited result, then the top N
                sizes = [int(r[2]) for r in r1]
                if any((a < b) if case["desc"] else (a > b) for a, b in zip(sizes, sizes[1:])):
                    out.add("C19/order/not-sorted", query=q1, sizes=sizes[:20])
                n = case["n"]
                ql = q1.replace(" into list", " limit %d into list" % n)
                rl = c05.run_rows(out, base, ql, 6, "C19", cfg=cfg, clock=case["clock"])
                if rl is not None:
                    if len(rl) != min(n, len(r1)):
                        out.add("C19/limit/count", query=ql, got=len(rl), want=min(n, len(r1)))
                    elif [int(r[2]) for r in rl] != sizes[:len(rl)]:
                        out.add("C19/limit/not-the-top-n", query=ql, got=[int(r[2]) for r in rl], want=sizes[:len(rl)])
            elif case["q"].startswith("where-") and case["q"] not in ("where-dates", "where-dates-ne"):
                # the same filter with LIMIT: N rows that pass it, members included, wherever they stand in their archive
                n = case["n"]
                ql = q1.replace(" into list", " limit %d into list" % n)
                rl = c05.run_rows(out, base, ql, 6, "C19", cfg=cfg, clock=case["clock"])
                if rl is not None:
                    if len(rl) != min(n, len(r1)):
                        out.add("C19/limit/filtered/count", query=ql, got=len(rl), want=min(n, len(r1)), passing=len(r1))
                    elif collections.Counter(rl) - got:
                        out.add("C19/limit/filtered/not-a-submultiset", query=ql)
                    out.classes.append("filter+limit")
            if case["q"] in ("plain", "where-name", "where-size") and members:
                # name decomposition of a member: `ext` comes from the member's own (last) name, behind the same
                # `[archive] ` prefix as its `name`
                qe = "select path, name, ext from . archives%s%s into list" % (opts, wclause)
                re_ = c05.run_rows(out, base, qe, 3, "C19", cfg=cfg, clock=case["clock"])
                if re_ is not None:
                    bad = []
                    for pth, nm, ext in re_:
                        if pth.startswith("[") and "] " in nm:
                            prefix, inner = nm.split("] ", 1)
                            if ext != prefix + "] " + member_ext(inner):
                                bad.append([nm, ext])
                    if bad:
                        out.add("C19/member/ext", query=qe, wrong=bad[:5])
                    out.classes.append("member-ext")
            if got != want:
                pass
            elif case["q"] == "plain" and case["n"] <= 3:
                ql = q1.replace(" into list", " limit %d into list" % case["n"])
                rl = c05.run_rows(out, base, ql, 6, "C19", cfg=cfg, clock=case["clock"])
                if rl is not None and (len(rl) != min(case["n"], len(r1)) or collections.Counter(rl) - got):
                    out.add("C19/limit/streamed", query=ql, got=len(rl), want=min(case["n"], len(r1)))
        sep = bool(mkeep) and (len(mkeep) < len(members) or case["q"] in ("order-limit", "aggregate", "plain"))
        out.nontrivial = (narch >= 2 or len(members) >= 3) and sep
        out.classes = sorted({"q=" + case["q"], "archives=%d" % min(narch, 3), "members=%s" % ("0" if not members else "1-2" if len(members) < 3 else "3+")} |
                             ({"config-override"} if case["cfg"] is not None else set()) | ({"depth-window"} if case["window"] else set()) |
                             ({"clock-pinned"} if case["clock"] else set()) | set(out.classes))
        out.sample = {"query": case["q"], "archives_searched": narch, "member_rows": len(members), "config": case["cfg"], "window": case["window"]}
    finally:
        runner.rmtree(cdir)


# ---------------------------------------------------------------- damage cases

def check_damage(out, case):
    cdir = runner.new_case_dir()
    base = os.path.join(cdir, "t")
    os.mkdir(base)
    os.chmod(base, 0o755)
    try:
        raw = trees.zip_bytes(SMALL)
        kind, arg = case["damage"]
        target = os.path.join(base, "x.zip")
        nobody = False
        if kind == "truncate":
            data = raw[:arg]
        elif kind.startswith("flip"):
            data = raw[:arg] + bytes([raw[arg] ^ int(kind[4:] or 255)]) + raw[arg + 1:]
        elif kind == "empty":
            data = b""
        else:
            data = raw
        if kind == "directory":
            os.mkdir(target)
            open(os.path.join(target, "inside"), "w").close()
        else:
            with open(target, "wb") as f:
                f.write(data)
            os.chmod(target, 0o644)
        if kind == "unreadable":
            os.chmod(target, 0)
            nobody = True
        with open(os.path.join(base, "other.txt"), "w") as f:
            f.write("o")
        # enough neighbours that some are read after the damaged archive whatever order the directory is listed in,
        # and a sub-directory (entered only after the whole listing in bfs)
        os.mkdir(os.path.join(base, "sub"))
        for n in NEIGHBOURS:
            with open(os.path.join(base, n), "w") as f:
                f.write("n")
        with open(os.path.join(base, "good.zip"), "wb") as f:
            f.write(raw)
        # json: a damaged name-length field can put a NUL into a member name, which the list format cannot carry
        q = "select path, size from . archives into json"
        res = runner.run([q], cwd=base, nobody=nobody)
        out.evals += 1
        if res.wall_timeout:
            out.inconclusive = True
            return
        tag = "C19/damage/" + kind
        if res.cpu_timeout:
            out.add(tag + "/hang", damage=case["damage"])
            return
        if res.sig is not None or b"panicked at" in res.err or res.status not in (0, 1):
            out.add(tag + "/abnormal-exit", damage=case["damage"], status=res.status, signal=res.sig, stderr=res.err[:300])
            return
        try:
            rows = [(o["Path"], o["Size"]) for o in json.loads(res.out.decode("utf-8"))]
        except (ValueError, KeyError, TypeError) as e:
            out.add(tag + "/list-malformed", err=str(e))
            return
        paths = collections.Counter(r[0] for r in rows)
        need = ["./x.zip", "./other.txt", "./good.zip", "[./good.zip] one.txt", "[./good.zip] d/", "[./good.zip] d/two.log", "./sub"]
        need += ["./" + n for n in NEIGHBOURS]
        if kind == "directory":
            need.append("./x.zip/inside")
        missing = [p for p in need if paths[p] != 1]
        if missing:
            out.add(tag + "/other-rows-lost-or-doubled", damage=case["damage"], missing=missing, rows=sorted(paths)[:12])
        # members of the damaged archive: required only when zipfile reads the same member list
        if kind.startswith("flip"):
            # a flipped local-header offset damages ONE member: if the archive is opened at all (any member row),
            # the members whose records are untouched are all there
            starts, q0 = [], -1
            while True:
                q0 = raw.find(b"PK\x01\x02", q0 + 1)
                if q0 < 0:
                    break
                starts.append(q0)
            hit = [k for k, p0 in enumerate(starts) if p0 + 42 <= arg < p0 + 46]
            names = ["one.txt", "d/", "d/two.log"]
            listed = [n for n in names if paths["[./x.zip] " + n]]
            if hit and listed:
                lost = [n for k, n in enumerate(names) if k != hit[0] and paths["[./x.zip] " + n] != 1]
                if lost:
                    out.add(tag + "/intact-member-lost", damage=case["damage"], lost=lost, listed=listed)
        if kind in ("truncate", "flip", "flip1", "flip16"):
            kind = kind[:4] if kind.startswith("flip") else kind
            try:
                zf = zipfile.ZipFile(io.BytesIO(data))
                names = [zi.filename for zi in zf.infolist()]
                sizes = [zi.file_size for zi in zf.infolist()]
                ok = zf.testzip() is None
            except Exception:
                names, ok = None, False
            # single-byte flips in header fields that Python ignores (version, disk number, attributes) are
            # rejected by the stricter zip crate: a reader disagreement on corrupt input, not asserted.
            if kind == "truncate" and ok and names == ["one.txt", "d/", "d/two.log"] and sizes == [3, 0, 10]:
                for n in names:
                    if paths["[./x.zip] " + n] != 1:
                        out.add(tag + "/readable-archive-member-missing", damage=case["damage"], member=n)
            dup = [p for p, c in paths.items() if c > 1]
            if dup:
                out.add(tag + "/row-twice", damage=case["damage"], rows=dup[:5])
        out.nt_keys = ["%s|%d" % (case["damage"][0], arg)]
        out.classes = ["damage=" + case["damage"][0], "status=%s" % res.status]
        out.sample = {"damage": case["damage"], "status": res.status, "rows": len(rows)}
    finally:
        runner.rmtree(cdir)


def check_same_names(out, case):
    """Two members of one archive may carry the same name (zip allows it, `unzip -l` lists both)."""
    import zipfile, warnings
    cdir = runner.new_case_dir()
    base = os.path.join(cdir, "t")
    os.mkdir(base)
    try:
        with warnings.catch_warnings():
            warnings.simplefilter("ignore")
            with zipfile.ZipFile(os.path.join(base, "dup.zip"), "w") as z:
                z.writestr("same.txt", "first")
                z.writestr("other.txt", "zz")
                z.writestr("same.txt", "second!!")
        rows = c05.run_rows(out, base, "select name, size from . archives into list", 2, "C19")
        if rows is None:
            return
        got = sorted(r for r in rows if r[0].startswith("["))
        want = sorted([("[dup.zip] same.txt", "5"), ("[dup.zip] other.txt", "2"), ("[dup.zip] same.txt", "8")])
        if got != want:
            out.add("C19/rows/member/same-name-collapsed", query="select name, size from . archives", got=[list(r) for r in got],
                    want=[list(r) for r in want])
        out.nt_keys = ["same-names"]
        out.classes.append("members-with-one-name")
        out.sample = {"archive": "dup.zip", "member_rows": got}
    finally:
        runner.rmtree(cdir)


def check_not_a_file(out, case):
    import socket
    cdir = runner.new_case_dir()
    base = os.path.join(cdir, "t")
    os.mkdir(base)
    sock = None
    try:
        p = os.path.join(base, "p.zip")
        what = case["what"]
        if what == "fifo":
            os.mkfifo(p)
        elif what == "socket":
            sock = socket.socket(socket.AF_UNIX)
            sock.bind(p)
        elif what == "dir":
            os.mkdir(p)
        elif what == "dangling":
            os.symlink("nowhere.zip", p)
        else:
            os.symlink("p.zip", p)
        for n in NEIGHBOURS[:8]:
            open(os.path.join(base, n), "w").close()
        with open(os.path.join(base, "good.zip"), "wb") as f:
            f.write(trees.zip_bytes(SMALL))
        q = "select path from . archives%s into list" % ((" " + case["mode"]) if case["mode"] else "")
        res = runner.run([q], cwd=base, wall=8)
        out.evals += 1
        if res.wall_timeout:
            # "257 ..." = the process sleeps inside openat(2): blocked on the pipe, not slow
            if res.blocked.split(" ")[0] in ("257", "2"):
                out.add("C19/not-a-file/%s/search-blocked-in-open" % what, query=q, syscall=res.blocked[:60])
            else:
                out.inconclusive = True
            return
        if res.sig is not None or res.status != 0 or res.err:
            out.add("C19/not-a-file/%s/abnormal-exit" % what, query=q, status=res.status, signal=res.sig, stderr=res.err[:200])
            return
        got = collections.Counter(r[0] for r in runner.rows(res.out, 1))
        want = collections.Counter(["./p.zip", "./good.zip", "[./good.zip] one.txt", "[./good.zip] d/", "[./good.zip] d/two.log"] +
                                   ["./" + n for n in NEIGHBOURS[:8]])
        if got != want:
            out.add("C19/not-a-file/%s/rows" % what, query=q, lost=sorted((want - got).elements())[:6], extra=sorted((got - want).elements())[:6])
        out.nontrivial = True
        out.nt_keys = ["not-a-file|%s|%s" % (what, case["mode"])]
        out.classes = ["not-a-file=" + what]
        out.sample = {"query": q, "rows": sum(got.values())}
    finally:
        if sock is not None:
            sock.close()
        runner.rmtree(cdir)


def check_archive_xattr(out, case):
    cdir = runner.new_case_dir()
    base = os.path.join(cdir, "t")
    os.mkdir(base)
    try:
        with open(os.path.join(base, "a.zip"), "wb") as f:
            f.write(trees.zip_bytes(SMALL))
        open(os.path.join(base, "plain.txt"), "w").close()
        try:
            os.setxattr(os.path.join(base, "a.zip"), "user.k", b"v")
        except OSError:
            out.classes = ["xattr-unavailable"]
            return
        opts = (" " + case["mode"]) if case["mode"] else ""
        q = "select path, has_xattr('user.k'), xattr('user.k') from . archives%s into list" % opts
        rows = c05.run_rows(out, base, q, 3, "C19")
        if rows is None:
            return
        for path, has, val in rows:
            want = ("true", "v") if path == "./a.zip" else ("false", "") if path == "./plain.txt" else ("", "")
            if path.startswith("[") and (has not in ("", "false") or val != ""):
                out.add("C19/member/xattr-of-the-archive-file", query=q, row=[path, has, val])
            elif not path.startswith("[") and (has, val) != want:
                out.add("C19/archive-xattr/on-disk-row", query=q, row=[path, has, val], want=list(want))
        q2 = "select path from . archives%s where has_xattr('user.k') into list" % opts
        r2 = c05.run_rows(out, base, q2, 1, "C19")
        if r2 is not None and sorted(r[0] for r in r2) != ["./a.zip"]:
            out.add("C19/member/filtered-by-the-archive-files-xattr", query=q2, rows=sorted(r[0] for r in r2))
        out.nontrivial = True
        out.nt_keys = ["archive-xattr|" + case["mode"]]
        out.classes = ["archive-xattr"]
        out.sample = {"query": q, "rows": len(rows)}
    finally:
        runner.rmtree(cdir)


def check(case):
    out = Outcome()
    if case["kind"] == "archive-xattr":
        check_archive_xattr(out, case)
        return out
    if case["kind"] == "not-a-file":
        check_not_a_file(out, case)
        return out
    if case["kind"] == "same-names":
        check_same_names(out, case)
        out.nontrivial = True
        return out
    if case["kind"] == "damage":
        check_damage(out, case)
        out.nontrivial = bool(out.nt_keys)
    else:
        check_search(out, case)
    return out


def _m(n, size, mode, dt, deflate=False):
    return {"n": n, "size": size, "mode": mode, "dt": dt, "deflate": deflate}


_TREE = {"top.txt": {"t": "f", "c": "x" * 50},
         "0a.zip": {"t": "z", "members": [_m("huge.bin", 100000, stat.S_IFREG | 0o644, [2020, 11, 30, 12, 0, 0], True),
                                          _m("dir/", 0, stat.S_IFDIR | 0o755, [2021, 2, 28, 0, 0, 0]),
                                          _m("dir/t.txt", 10, stat.S_IFREG | 0o600, [2024, 2, 29, 23, 59, 58])]},
         "sub": {"t": "d", "ch": {"1b.JAR": {"t": "z", "members": [_m("l", 1, stat.S_IFLNK | 0o777, [1999, 4, 30, 0, 0, 0])]},
                                  "2data.bin": {"t": "z", "members": [_m("hidden.txt", 5, stat.S_IFREG | 0o644, [2020, 1, 1, 0, 0, 0])]}}}}


def _c(q, **kw):
    d = {"kind": "search", "tree": _TREE, "q": q, "mode": "", "clock": None, "window": None, "cfg": None, "n": 1, "thr": 10, "desc": True}
    d.update(kw)
    return d


PINNED = [
    ("plain", _c("plain")),
    ("order-desc-limit-1", _c("order-limit", n=1, desc=True)),
    ("where-name", _c("where-name", mode="dfs")),
    ("config-bin-only", _c("plain", cfg=[".bin"])),
    ("window-edge", _c("plain", window=[2, 2])),
    ("clock-on-the-31st", _c("plain", clock=1698753600)),
    ("clock-on-feb-29", _c("plain", clock=1709208000)),
    ("aggregate", _c("aggregate")),
]
