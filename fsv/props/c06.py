"""C06 LIMIT N returns min(N, matches) rows, and with ORDER BY the true top N (DESIGN.md 4, C06)."""
import collections
import functools
import os
import re

from hypothesis import strategies as st

from .. import runner, trees
from ..engine import Outcome, chash
from . import c05

ID = "C06"
LEVEL = "exploration"
RULE = ("the C05 generator (trees with ties, optional WHERE, 0..3 order keys, bfs/dfs, 1..2 roots) plus zip archives "
        "searched with `archives` whose members are smaller and larger than every on-disk file; for each generated "
        "(tree, query) pair EVERY N in 1..M+2 is run (M = unlimited row count), plus `limit 0` and no limit. Oracle: "
        "row count == min(N, M); without ORDER BY the rows are a sub-multiset of the unlimited rows; with ORDER BY the "
        "rows are sorted and their typed key sequence equals the first N key tuples of the sorted unlimited result "
        "(either resolution of a tie at the cut is accepted); limit 0 / absent limit give exactly the unlimited "
        "multiset. The same search is repeated with a second select list without the path column (values reached through "
        "function arguments, arithmetic, constants next to columns): its row counts for no limit, limit 0 and limit 1..min(M,6)+1 "
        "must be the same M / min(N, M). A third of the cases also run the search grouped (`select key, count(*), sum(size) ... "
        "group by key [order by key | aggregate]`) with every N in 1..G+2: min(N, G) group rows, a sub-multiset of the unlimited "
        "group rows, and with ORDER BY the ordering column's first N values. Non-trivial sub-case = (pair, N) with 1 <= N < M and, when ordered, a tie straddling position N or "
        "an archive member among the expected top N.")
ASSUMPTIONS = [
    "which rows are returned without ORDER BY is not asserted (any N of them)",
    "the unlimited result is fselect's own output (its correctness is C01/C02/C05/C19's subject)",
]
EXHAUSTIVE_NOTE = None


def examples(tier):
    return 1120 if tier == "quick" else 14000


@st.composite
def strategy_(draw, tier):
    case = draw(c05.order_case(tier, need_keys=False))
    spec = case["tree"]
    arch = draw(st.sampled_from([False, False, True]))
    if arch:
        nz = draw(st.sampled_from([1, 1, 2]))
        for i in range(nz):
            nm = draw(st.sampled_from(["pack.zip", "lib.jar", "A.ZIP", "w.war"]))
            members = []
            for j in range(draw(st.sampled_from([1, 2, 3, 5, 8]))):
                members.append({"n": "m%d_%d.%s" % (i, j, draw(st.sampled_from(["txt", "log", "rs"]))),
                                "size": draw(st.sampled_from([0, 5, 10, 100, 5000, 4000000, 9000000])),
                                "deflate": True})
            dirs = [()] + trees.dirs_of(spec)
            d = draw(st.sampled_from(dirs))
            trees.subtree(spec, d)["%d%s" % (i, nm)] = {"t": "z", "members": members}
    if arch and draw(st.booleans()):
        # a filter that separates archive members from each other (some stored early are rejected)
        case["where"] = draw(st.sampled_from(["name like '%.txt'", "name like '%.log'", "name like '%.rs'", "size >= 100",
                                              "size < 100", "name like '[%' and size > 5", "ext = 'txt' or name like '%.rs'"]))
    case["archives"] = arch
    # a second select list without the path column: the number of rows must not depend on what is selected
    case["bare"] = draw(st.sampled_from(BARE_LISTS))
    # ... and once more as a grouped query (a third of the cases)
    case["grouped"] = None
    if draw(st.sampled_from(range(3))) == 0:
        case["grouped"] = {"key": draw(st.sampled_from(["ext", "dir", "is_dir", "length(name)", "fsize"])),
                           "order": draw(st.sampled_from([None, "1", "2", "count(*)", "sum(size)", "1"])), "desc": draw(st.booleans())}
    tops = [n for n, nd in spec.items() if nd["t"] == "d" and c05.c02 and n.replace(".", "").replace("_", "").isalnum()
            and not n[0].isdigit() and n not in ("size", "bin", "mode", "name")]
    case["roots"] = ["."]
    if len(tops) >= 2 and draw(st.sampled_from(range(4))) == 0:
        case["roots"] = tops[:2]
    # line_count / where atoms only meaningful for on-disk entries; fine with archives too (own output is the oracle)
    return case


BARE_LISTS = [["name"], ["concat('f:', name)"], ["concat_ws('-', name, size)"], ["upper(name)"], ["size + 1"], ["1 + size"],
              ["coalesce(ext, name)"], ["length(name)", "concat('x', ext)"], ["format_size(size, '%.1')"], ["substr(name, 1, 2)"],
              ["greatest(1, size)"], ["least(100, length(name))", "concat('<', name, '>')"], ["replace(name, 'a', 'b')"],
              ["size"], ["ext"], ["is_dir"], ["concat(name, ext)"], ["power(2, length(ext))"],
              # functions that read the entry without naming a column
              ["contains('a')"], ["has_xattr(user.test)"], ["xattr(user.test)", "contains('x')"], ["has_caps()"]]


def strategy(tier):
    return strategy_(tier)


def tail_text(case):
    opts = (" archives" if case.get("archives") else "") + (" " + case["mode"] if case["mode"] else "")
    s = " from " + ", ".join(r + opts for r in case["roots"])
    if case["where"]:
        s += " where " + case["where"]
    return s


def check(case):
    out = Outcome()
    cdir = runner.new_case_dir()
    base = os.path.join(cdir, "t")
    os.mkdir(base)
    nt_keys = []
    try:
        trees.materialize(base, case["tree"])
        cols = case["cols"]
        ncols = 1 + len(cols)
        sel = c05.select_text(case, cols)
        tail = tail_text(case)
        order = c05.order_text(case)
        unlimited = c05.run_rows(out, base, sel + tail + order + " into list", ncols, "C06")
        if unlimited is None:
            return out
        m = len(unlimited)
        cu = collections.Counter(unlimited)
        keymap = None
        sorted_keys = None
        if case["keys"]:
            kexprs = [k["expr"] for k in case["keys"]]
            krows = c05.run_rows(out, base, "select path, " + ", ".join(kexprs) + tail + " into list", 1 + len(kexprs), "C06")
            if krows is None:
                return out
            keymap = {r[0]: r[1:] for r in krows}
            kts = []
            for r in unlimited:
                kt = c05.key_tuple(case, keymap.get(r[0], ()))
                if kt is None or len(kt) != len(case["keys"]):
                    kts = None
                    break
                kts.append(kt)
            if kts is not None:
                sorted_keys = sorted(kts, key=functools.cmp_to_key(c05.cmp_keys))
                # the unlimited ordered output itself must be sorted (C05) - not re-reported here
        ck = chash(case)
        for n in list(range(1, m + 3)) + [0, None]:
            lim = "" if n is None else " limit %d" % n
            q = sel + tail + order + lim + " into list"
            rows = c05.run_rows(out, base, q, ncols, "C06")
            if rows is None:
                continue
            expect_n = m if not n else min(n, m)
            kind = "ordered" if case["keys"] else "unordered"
            arch = "+archives" if case.get("archives") else ""
            if len(rows) != expect_n:
                out.add("C06/count/%s%s/%s" % (kind, arch, "too-few" if len(rows) < expect_n else "too-many"),
                        query=q, got=len(rows), want=expect_n, unlimited=m)
                continue
            cr = collections.Counter(rows)
            if not n:
                if cr != cu:
                    out.add("C06/unlimited-differs/%s" % ("limit0" if n == 0 else "nolimit"), query=q)
                continue
            if cr - cu:
                out.add("C06/not-a-submultiset/%s%s" % (kind, arch), query=q, invented=[list(r) for r in (cr - cu)][:4])
                continue
            if case["keys"] and sorted_keys is not None:
                got_keys = []
                for r in rows:
                    kt = c05.key_tuple(case, keymap.get(r[0], ()))
                    got_keys.append(kt)
                want_keys = sorted_keys[:expect_n]
                if any(k is None for k in got_keys) or \
                        any(c05.cmp_keys(a, b) != 0 for a, b in zip(got_keys, want_keys)):
                    out.add("C06/not-the-top-n/%s" % ("archives" if case.get("archives") else "plain"), query=q,
                            got=[[v if not isinstance(v, bytes) else v.decode("utf-8", "replace") for v, _ in k] for k in got_keys if k][:6],
                            want=[[v if not isinstance(v, bytes) else v.decode("utf-8", "replace") for v, _ in k] for k in want_keys][:6])
                    continue
                if 1 <= n < m:
                    straddle = c05.cmp_keys(sorted_keys[n - 1], sorted_keys[n]) == 0
                    in_arch = any(r[0].startswith("[") for r in rows)
                    if straddle or in_arch:
                        nt_keys.append("%s|%d" % (ck, n))
                    if straddle:
                        out.classes.append("tie-straddles-cut")
                    if in_arch:
                        out.classes.append("archive-member-in-top-n")
            elif 1 <= n < m:
                nt_keys.append("%s|%d" % (ck, n))
        # the same search with another select list (no path column, values reached through function arguments)
        bare = case.get("bare")
        if bare:
            sel2 = "select " + ", ".join(bare)
            ref = None
            order2 = "" if any(k.get("pos") for k in case["keys"]) else order   # positions refer to the first select list
            for n in [None, 0] + list(range(1, min(m, 6) + 2)):
                lim = "" if n is None else " limit %d" % n
                q = sel2 + tail + order2 + lim + " into list"
                rows = c05.run_rows(out, base, q, len(bare), "C06")
                if rows is None:
                    continue
                expect_n = m if not n else min(n, m)
                if len(rows) != expect_n:
                    out.add("C06/count/depends-on-select-list/%s" % ("too-few" if len(rows) < expect_n else "too-many"),
                            query=q, got=len(rows), want=expect_n, reference_query=sel + tail + order)
                    break
                if n is None:
                    ref = collections.Counter(rows)
                elif ref is not None and collections.Counter(rows) - ref:
                    out.add("C06/not-a-submultiset/other-select-list", query=q)
                    break
            out.classes.append("second-select-list")
        # the same search grouped: LIMIT counts group rows (one per key), after ORDER BY
        g = case.get("grouped")
        if g:
            gsel = "select %s, count(*), sum(size)" % g["key"]
            gtail = tail + " group by " + g["key"]
            gorder = "" if not g["order"] else " order by %s%s" % (g["order"], " desc" if g["desc"] else "")
            full = c05.run_rows(out, base, gsel + gtail + gorder + " into list", 3, "C06")
            if full is not None:
                gm = len(full)
                oidx = {"1": 0, "2": 1, "count(*)": 1, "sum(size)": 2}.get(g["order"], 0) if g["order"] else None
                if g["key"] == "fsize" and g["order"] == "1":
                    # a size with a unit is a number: `limit N` can only be the first N if the rows are in numeric order
                    def _bytes(t):
                        m_ = re.match(r"^(\d+(?:\.\d+)?)(B|KiB|MiB|GiB|TiB)$", t)
                        return float(m_.group(1)) * 1024 ** ["B", "KiB", "MiB", "GiB", "TiB"].index(m_.group(2)) if m_ else None
                    vals = [_bytes(r[0]) for r in full]
                    if all(v is not None for v in vals) and any((a < b) if g["desc"] else (a > b) for a, b in zip(vals, vals[1:])):
                        out.add("C06/grouped/size-with-unit-key-not-in-numeric-order", query=gsel + gtail + gorder, keys=[r[0] for r in full][:12])
                    out.classes.append("grouped-by-fsize")
                for n in list(range(1, gm + 3)) + [0]:
                    q = gsel + gtail + gorder + " limit %d into list" % n
                    rows = c05.run_rows(out, base, q, 3, "C06")
                    if rows is None:
                        continue
                    expect_n = gm if n == 0 else min(n, gm)
                    if len(rows) != expect_n:
                        out.add("C06/count/grouped/%s" % ("too-few" if len(rows) < expect_n else "too-many"), query=q, got=len(rows),
                                want=expect_n, groups=gm)
                        break
                    if collections.Counter(rows) - collections.Counter(full):
                        out.add("C06/not-a-submultiset/grouped", query=q)
                        break
                    if oidx is not None and [r[oidx] for r in rows] != [r[oidx] for r in full[:expect_n]]:
                        out.add("C06/not-the-top-n/grouped", query=q, got=[r[oidx] for r in rows][:8], want=[r[oidx] for r in full[:expect_n]][:8])
                        break
                    if 1 <= n < gm:
                        nt_keys.append("%s|grouped|%d" % (ck, n))
                out.classes.append("grouped")
        out.classes += ["ordered" if case["keys"] else "unordered", "M=%s" % ("0" if m == 0 else "1-9" if m < 10 else "10-29" if m < 30 else "30+")]
        if case.get("archives"):
            out.classes.append("archives")
        if len(case["roots"]) > 1:
            out.classes.append("two-roots")
        if case["where"]:
            out.classes.append("where")
        out.classes = sorted(set(out.classes))
        out.sample = {"query": sel + tail + order + " limit N", "M": m, "N": "1..%d, 0, none" % (m + 2)}
    finally:
        runner.rmtree(cdir)
    out.nt_keys = nt_keys
    out.nontrivial = bool(nt_keys)
    return out


def _tree():
    t = c05._tree()
    t["0pack.zip"] = {"t": "z", "members": [{"n": "huge.bin", "size": 5000000, "deflate": True}, {"n": "tiny.txt", "size": 1}]}
    return t


def _k(expr, d="", pos=None):
    return {"expr": expr, "dir": d, "pos": pos}


PINNED = [
    ("archive-top1-by-size", {"tree": _tree(), "cols": ["size"], "where": None, "keys": [_k("size", "desc")], "mode": None,
                              "archives": True, "roots": ["."]}),
    ("ties-at-cut", {"tree": _tree(), "cols": ["name", "size"], "where": None, "keys": [_k("size")], "mode": "dfs",
                     "archives": False, "roots": ["."]}),
    ("unordered-two-roots", {"tree": _tree(), "cols": ["name"], "where": "is_dir = false", "keys": [], "mode": None,
                             "archives": False, "roots": ["many", "sub"]}),
]
