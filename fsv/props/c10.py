"""C10 Any command line terminates with status 0, 1 or 2 (DESIGN.md 4, C10)."""
import os

from hypothesis import strategies as st

from .. import lang, queries, runner, trees
from ..engine import Outcome

ID = "C10"
LEVEL = "exploration"
RULE = ("argument vectors of six classes run against a fixed 15-entry tree inside a chroot jail: (i) token soups "
        "over the language alphabet, (ii) token-level mutations of generated valid queries, (iii) every function x "
        "arity 0..4 x ill-typed arguments (every function x every single argument and argument pair enumerated), (iv) ill-typed literals (bad regex/date/boolean), (v) malformed by "
        "construction (unbalanced bracket, dangling/unknown operator, bad ORDER BY position, bad LIMIT, unknown "
        "format, no column), (vi) FROM clauses with plain, pattern and malformed-pattern roots x root options "
        "(regexp, depth options with good and bad numbers, near-miss option words). Oracle: terminates within 10 CPU-seconds, status in {0,1,2}, no `panicked at`, classes "
        "iv/v give status 2 with a diagnostic, `query:` rejection prints no row. Non-trivial = fselect rejected the "
        "argv (status 1/2) or the case belongs to class iii/iv/v/vi; distinct by argv.")
ASSUMPTIONS = [
    "runs happen in a chroot jail (binary + its shared libraries + the fixed tree), so `/`, `..`, `~` stay bounded",
    "a hang is a run that consumes 10 CPU-seconds on a 15-entry tree (SIGXCPU); wall-clock timeouts are inconclusive",
    "interactive mode reads EOF from /dev/null; FIFOs are absent from the tree (content columns would block on them)",
]

FIXED_TREE = {
    "a.txt": {"t": "f", "c": "hello world\n", "mtime": 1600000000},
    "b.log": {"t": "f", "c": "l1\nl2\nl3\n", "mtime": 1500000000},
    "README": {"t": "f", "c": "#!/bin/sh\necho x\n", "mode": 0o755, "mtime": 1400000000},
    ".hidden": {"t": "f", "c": ""},
    "sp ace.txt": {"t": "f", "c": "x y z"},
    "link": {"t": "l", "to": "a.txt"},
    "dangling": {"t": "l", "to": "nowhere"},
    "z.zip": {"t": "z", "members": [{"n": "in/", "mode": 0o40755}, {"n": "in/m.txt", "c": "zipped"}]},
    "big.bin": {"t": "f", "size": 3000000},
    "empty": {"t": "d", "ch": {}},
    # names that promise a media format and are something else (media columns open them by extension)
    "dir.svg": {"t": "d", "ch": {}},
    "dang.svg": {"t": "l", "to": "nowhere"},
    "bin.svg": {"t": "f", "c": "\udcff\udcfe<svg"},
    "ok.svg": {"t": "f", "c": "<svg width=\"10\" height=\"20\"></svg>"},
    "gps.tif": {"t": "f", "hex": "49492a0008000000010025880400010000001a00000000000000020001000200020000004e000000020005000300000038000000000000000a0000000000000014000000000000001e00000000000000"},   # EXIF GPS latitude 10/0 20/0 30/0 (denominator 0)
    "empty.wav": {"t": "f", "c": ""}, "dir.mkv": {"t": "d", "ch": {}}, "x.mp3": {"t": "f", "c": "ID3"}, "e.jpg": {"t": "f", "c": ""},
    "sub": {"t": "d", "ch": {
        "c.txt": {"t": "f", "c": "ccc"},
        "d.rs": {"t": "f", "c": "fn main() {}\n"},
        "deep": {"t": "d", "ch": {"e.md": {"t": "f", "c": "# e\n"}}},
    }},
}

_jail = None
_jail_pid = None


def jail():
    global _jail, _jail_pid
    if _jail is None or _jail_pid != os.getpid() or not os.path.isdir(_jail):
        def pop(j):
            os.makedirs(j + "/t")
            trees.materialize(j + "/t", FIXED_TREE)
            with open(j + "/t/.gitignore", "w") as f:
                f.write("*.log\n")
            with open(j + "/cfg/alt.toml", "w") as f:
                f.write("gitignore = true\n")
            with open(j + "/cfg/bad.toml", "w") as f:
                f.write("this is = not [ toml\n")
        _jail = runner.make_jail(pop)
        _jail_pid = os.getpid()
    return _jail


# ---------------------------------------------------------------- token alphabet for soups

NUMBERS = ["0", "1", "2", "10", "-1", "3.5", "99999999999", "18446744073709551616", "1k", "2mb", "1.5g",
           "0x10", "1e5", "-0", "007", "4294967296"]
GLOBS = ["*.txt", "?.log", "*.*", "a*", "%.txt", "_.log", "*", "?", "%"]
DATES = ["2020-01-01", "'2020-01-01 10:00'", "today", "yesterday", "-1", "+1", "2020-13-45", "'2020-02-30'",
         "1970-01-01", "2999-12-31", "'apr 1'", "'last fri'"]
PATHS = [".", "a.txt", "./sub", "sub", "nonexistent", "sub/deep", "..", "/", "~", "/t", "empty", "z.zip",
         "./", "sub/", "/t/sub", "../t", "*", "/t/s*",
         # argument bytes that are not valid UTF-8 (written with surrogate escapes; the OS passes them as raw bytes)
         "r\udcff", "sub/\udcfe\udcff", "~x"]
QUOTED = ["'abc'", '"x y"', "`q`", "''", "'", '"', "`", "'abc", 'abc"', "'a,b'", "'(a)'", "'%.txt'"]
SWITCHES = ["-c", "--config", "/c", "--nocolor", "--no-color", "/nocolor", "-v", "--version", "-h", "--help",
            "/?", "/h", "-i", "--i", "/i", "/cfg/alt.toml", "/cfg/bad.toml", "/cfg/none.toml"]
PUNCT = [",", "(", ")", "{", "}", ",", "(", ")"]
ODD_OPS = ["=!", "<<", ">>", "~", "!!", "=<", "=>", "><", "~~", "!", "====", "!===", "<>=", "=~=", "!~"]

SOUP = (lang.KEYWORDS * 3 + lang.ALL_OPS * 2 + [w for g in lang.ARITH_ALIASES for w in g] * 2 + PUNCT * 3
        + NUMBERS + GLOBS + DATES + PATHS * 2 + QUOTED + [w for g in lang.ROOT_OPTION_ALIASES for w in g]
        + lang.FORMATS + ["xml"] + lang.ALL_COLUMN_WORDS + lang.ALL_FUNCTION_WORDS + ODD_OPS
        + ["true", "false", "yes", "no", "maybe", "asc", "desc", "by", "group", "*", "count(*)"])

TOKEN_CLASSES = [lang.KEYWORDS, lang.ALL_OPS + ODD_OPS, [w for g in lang.ARITH_ALIASES for w in g], PUNCT,
                 NUMBERS, GLOBS, DATES, PATHS, QUOTED, lang.FORMATS + ["xml"], lang.ALL_COLUMN_WORDS,
                 lang.ALL_FUNCTION_WORDS, [w for g in lang.ROOT_OPTION_ALIASES for w in g]]

FUNC_ARGS = ["ext", "name", "size", "modified", "'abc'", "5", "-3", "2.5", "99999999999999999999",
             "'2020-02-30'", "is_dir", "0", "x", "'a b'", "-1", "'%.1 k'", "path", "1e400", "'-'", "2020-05-05",
             "1", "3", "'zz'", "mode", "'%.99999999999'", "'%.65536'", "'%.70000 kb'", "''", "'é日本'", "'日本語テキスト'", "'2020-0\u0661-01'", "'\u0663'", "'2020-01-01 1\u0663:00'", "'%.2 q'", "-9223372036854775808", "2147483648"]

BAD_REGEX = ["'('", "'[a'", "'*'", "')'", "'a)'", "'(?P<n'", "'[z-a]'", "'a{2,1}'", "'\\'"]
# always quoted: an unquoted `2020-13-01` is lexed as the arithmetic expression `2020-13` minus `01`
# (the lexer keeps `-` inside a word only while the word looks like a valid date), so it is not a
# date literal at all - see DESIGN.md section 7.
BAD_DATES = ["'2020-02-30'", "'2020-13-01'", "'2021-02-29'", "'2020-01-01 25:00'", "'2020-01-01 10:61'",
             "'2020-01-01 10:10:61'", "'-x'", "'+y'", "'zz'", "'2020-00-10'", "'2020-04-31'", "'2020-01-01 24'",
             "'-99999999999999999999'", "'+9223372036854775807'",
             # no date part: these go to the English date parser (chrono-english), which used to panic on them
             "'99:99:99'", "'apr 1 25:61'", "'10.70'", "'12:00:61'", "'next fri 30:00'", "'12345.6'", "'é日本語の日付'", "'1 jan 2020 24:00'",
             # digits that are not ASCII digits (the date pattern used to accept them, the number parser does not)
             "'2020-0\u0661-01'", "'\u0662\u0660\u0662\u0660-01-01'", "''", "' '"]
BAD_BOOLS = ["maybe", "2", "'tru'", "10", "oui", "-1", "truee", "''", "' '", "1.0", "01"]
# literals that are no number at all, on a numeric column
BAD_NUMS = ["'root'", "'abc'", "''", "' '", "0x10", "'1_000'", "1zb", "1x", "nan", "'NaN'", "'nan kb'", "NaNk"]
NUM_COLS = ["size", "uid", "gid", "hardlinks", "inode", "length(name)", "size + 1"]
NUM_OPS = ["=", "!=", ">", ">=", "<", "<=", "===", "!==", "eq", "ne", "gt", "lte"]
DATE_OPS = ["=", "!=", ">", ">=", "<", "<=", "===", "!==", "eq", "ne", "gt", "lte"]


def examples(tier):
    return 16800 if tier == "quick" else 280000


@st.composite
def soup(draw):
    n = draw(st.sampled_from([1, 1, 2, 3, 4, 5, 6, 8, 10, 12, 16]))
    toks = [draw(st.sampled_from(SOUP)) for _ in range(n)]
    if draw(st.sampled_from(range(4))) == 0:
        toks.insert(0, draw(st.sampled_from(SWITCHES)))
    return {"cls": "i", "argv": queries.split_args(draw, toks), "expect2": False}


@st.composite
def mutated(draw):
    toks = list(draw(queries.valid_query()))
    nm = draw(st.sampled_from([1, 1, 1, 2, 3]))
    for _ in range(nm):
        if not toks:
            break
        kind = draw(st.sampled_from(["delete", "duplicate", "transpose", "truncate", "replace", "insert"]))
        i = draw(st.sampled_from(range(len(toks))))
        if kind == "delete":
            del toks[i]
        elif kind == "duplicate":
            toks.insert(i, toks[i])
        elif kind == "transpose" and i + 1 < len(toks):
            toks[i], toks[i + 1] = toks[i + 1], toks[i]
        elif kind == "truncate":
            toks = toks[:max(1, i)]
        elif kind == "replace":
            toks[i] = draw(st.sampled_from(draw(st.sampled_from(TOKEN_CLASSES))))
        else:
            toks.insert(i, draw(st.sampled_from(draw(st.sampled_from(TOKEN_CLASSES)))))
    if not toks:
        toks = ["select"]
    return {"cls": "ii", "argv": queries.split_args(draw, toks), "expect2": False}


@st.composite
def function_calls(draw):
    f = draw(st.sampled_from(lang.ALL_FUNCTION_WORDS))
    arity = draw(st.sampled_from([0, 1, 1, 2, 2, 3, 4]))
    args = [draw(st.sampled_from(FUNC_ARGS)) for _ in range(arity)]
    call = "%s(%s)" % (f, ", ".join(args))
    where = draw(st.sampled_from(["select", "select2", "where-bare", "where-cmp", "order"]))
    if where == "select":
        q = "select %s from . into list" % call
    elif where == "select2":
        q = "select name, %s, size from sub" % call
    elif where == "where-bare":
        q = "select name from . where %s" % call
    elif where == "where-cmp":
        q = "select name from . where %s %s %s" % (call, draw(st.sampled_from(["=", ">", "like", "!=", "=~"])),
                                                   draw(st.sampled_from(FUNC_ARGS)))
    else:
        q = "select name from . order by %s desc" % call
    if draw(st.sampled_from(range(5))) == 0:
        q = q.replace("(", "{").replace(")", "}")
    return {"cls": "iii", "argv": [q], "expect2": False}


@st.composite
def ill_typed(draw):
    kind = draw(st.sampled_from(["regex", "date", "bool", "num"]))
    if kind == "regex":
        col = draw(st.sampled_from(["name", "path", "ext", "dir", "mode", "lower(name)"]))
        op = draw(st.sampled_from(["=~", "~=", "regexp", "rx", "!=~", "!~="]))
        atom = "%s %s %s" % (col, op, draw(st.sampled_from(BAD_REGEX)))
    elif kind == "num":
        atom = "%s %s %s" % (draw(st.sampled_from(NUM_COLS)), draw(st.sampled_from(NUM_OPS)), draw(st.sampled_from(BAD_NUMS)))
    elif kind == "date":
        col = draw(st.sampled_from(["modified", "accessed", "created", "exif_datetime"]))
        atom = "%s %s %s" % (col, draw(st.sampled_from(DATE_OPS)), draw(st.sampled_from(BAD_DATES)))
    else:
        col = draw(st.sampled_from(["is_dir", "is_file", "is_hidden", "suid", "other_exec", "is_empty", "is_source"]))
        atom = "%s %s %s" % (col, draw(st.sampled_from(["=", "!=", "==", "ne", "eq"])), draw(st.sampled_from(BAD_BOOLS)))
    shape = draw(st.sampled_from(["plain", "and-true", "or-false", "paren", "order", "agg"]))
    if shape == "plain":
        q = "select name from . where " + atom
    elif shape == "and-true":
        q = "select name, size from . where size >= 0 and " + atom
    elif shape == "or-false":
        q = "select name from . where size < 0 or " + atom
    elif shape == "paren":
        q = "select name from . where (" + atom + ")"
    elif shape == "order":
        q = "select name from . where " + atom + " order by name"
    else:
        q = "select count(*) from . where " + atom
    if draw(st.booleans()):
        q += " into " + draw(st.sampled_from(lang.FORMATS))
    return {"cls": "iv:" + kind, "argv": [q], "expect2": True}


@st.composite
def malformed(draw):
    kind = draw(st.sampled_from(["unbalanced", "dangling-op", "unknown-op", "order-pos", "limit", "format",
                                 "no-column"]))
    if kind == "unbalanced":
        toks = list(draw(queries.valid_query(need="brackets")))
        w = toks.index("where")
        idx = [i for i, t in enumerate(toks) if i > w and t in ("(", ")", "{", "}")]
        how = draw(st.sampled_from(["drop", "drop", "add-open", "add-close", "swap-kind"]))
        if how == "drop":
            del toks[draw(st.sampled_from(idx))]
        elif how == "add-open":
            toks.insert(w + 1, draw(st.sampled_from(["(", "{"])))
        elif how == "add-close":
            end = len(toks)
            for kw in ("group", "order", "limit", "into"):
                if kw in toks[w:]:
                    end = min(end, toks.index(kw, w))
            toks.insert(end, draw(st.sampled_from([")", "}"])))
        else:
            i = draw(st.sampled_from(idx))
            toks[i] = {"(": "{", ")": "}", "{": "(", "}": ")"}[toks[i]]
    elif kind == "dangling-op":
        col = draw(st.sampled_from(["size", "name", "modified", "length(name)"]))
        op = draw(st.sampled_from(lang.ALL_OPS[:-1]))
        tail = draw(st.sampled_from(["", " and name = a", " or size > 1", " order by name", " limit 3", " into json"]))
        form = draw(st.sampled_from(["no-right", "no-left", "and-end", "or-start", "double-op"]))
        if form == "no-right":
            cond = "%s %s%s" % (col, op, tail)
        elif form == "no-left":
            cond = "%s 5%s" % (op, tail) if op not in ("like", "notlike", "between", "regexp", "rx", "notrx", "eeq", "ene") else "= 5" + tail
        elif form == "and-end":
            cond = "%s > 1 %s" % (col, draw(st.sampled_from(["and", "or"])))
        elif form == "or-start":
            cond = "%s %s > 1" % (draw(st.sampled_from(["and", "or"])), col)
        else:
            cond = "%s %s %s 5" % (col, op, draw(st.sampled_from(["=", ">", "<=", "!="])))
        toks = ["select", "name", "from", ".", "where"] + cond.split()
    elif kind == "unknown-op":
        col = draw(st.sampled_from(["size", "name", "modified", "is_dir", "ext"]))
        toks = ["name", "from", ".", "where", col, draw(st.sampled_from(ODD_OPS)), draw(st.sampled_from(["3", "a", "true"]))]
    elif kind == "order-pos":
        ncols = draw(st.sampled_from([1, 2, 3]))
        cols = ["name", "size", "path"][:ncols]
        pos = draw(st.sampled_from(["0", str(ncols + 1), str(ncols + 7), "desc", ", desc", "desc name", "99999999999999999999"]))
        toks = [", ".join(cols), "from", ".", "order", "by"] + pos.split()
        if draw(st.booleans()):
            toks += ["limit", "2"]
    elif kind == "limit":
        toks = ["name", "from", ".", "limit"] + draw(st.sampled_from(["x", "", "-1", "1.5", "ten", "into list", "99999999999", "'a'"])).split()
    elif kind == "format":
        toks = ["name", "from", ".", "into"] + draw(st.sampled_from(["xml", "", "yaml", "table", "'js on'", "limit"])).split()
    else:
        toks = draw(st.sampled_from([
            ["from", "."], ["from", ".", "where", "size", ">", "1"], ["where", "size", ">", "1"], ["into", "json"],
            ["order", "by", "name"], ["limit", "5"], ["select"], ["select", "from", "."], [","],
            ["select", ",", "from", "sub"], ["from", ".", "into", "list"], ["and"], [")"], ["select", "into", "csv"],
        ]))
    how = draw(st.sampled_from(["one", "one", "each"]))
    argv = [" ".join(toks)] if how == "one" else [t for t in toks]
    return {"cls": "v:" + kind, "argv": argv, "expect2": True}


RX_ROOTS = ["'./[a'", "'su[b'", "'(sub'", "'s*'", "'s?b'", "'su[bp]'", "'[z-a]'", "'*'", "'?'", "'sub/[d'", "'sub/d*'", "'/t/s[u'",
            "'a{2,1}*'", "'s**'", "'[[:foo:]]'", "'\\[x'", "'sub/*/[q'", "'(?P<n>s*'", "'su[b]'", "sub", ".", "'/t/*'", "'*)'"]
ROOT_OPT_WORDS = [w for g in lang.ROOT_OPTION_ALIASES for w in g] + ["regex", "regexps", "archive", "symlink", "gitignored"]
ROOT_OPT_NUMS = ["0", "1", "2", "x", "-1", "1.5", "4294967295", "4294967296", "99999999999999999999", "'1'", "1k", ""]


@st.composite
def root_options(draw):
    """FROM clauses: roots (plain, glob/regexp-looking, malformed patterns) each followed by 0..4 root options,
    depth options with good and bad numbers; regexp roots only take effect after another option."""
    parts = []
    for _ in range(draw(st.sampled_from([1, 1, 1, 2, 3]))):
        r = draw(st.sampled_from(RX_ROOTS))
        opts = []
        for _ in range(draw(st.sampled_from([0, 1, 2, 2, 3, 4]))):
            w = draw(st.sampled_from(ROOT_OPT_WORDS))
            opts.append(w)
            if w in ("depth", "maxdepth", "mindepth"):
                n = draw(st.sampled_from(ROOT_OPT_NUMS))
                if n:
                    opts.append(n)
        parts.append(" ".join([r] + opts))
    q = draw(st.sampled_from(["name", "select name, size", "count(*)", "path"])) + " from " + ", ".join(parts)
    q += draw(st.sampled_from(["", "", " where size >= 0", " order by name", " limit 2", " into json"]))
    if draw(st.sampled_from(range(4))) == 0:
        return {"cls": "vi", "argv": q.replace("'", "").split(), "expect2": False}
    return {"cls": "vi", "argv": [q], "expect2": False}


def strategy(tier):
    gens = [soup(), soup(), mutated(), mutated(), mutated(), function_calls(), function_calls(),
            ill_typed(), malformed(), malformed(), root_options()]
    return st.sampled_from(range(len(gens))).flatmap(lambda i: gens[i])


EXHAUSTIVE_NOTE = ("class iv (every bad regex / date / boolean literal x column x operator spelling, plain WHERE) and "
                   "the closed lists of class v (unknown operators, ORDER BY positions, LIMIT and INTO operands, "
                   "column-less queries) are enumerated completely in addition to the generated search")


FIRST_ARGS = ["name", "size", "modified", "5", "'abc'"]


def enumerate_cases(tier):
    cases = []
    # class iii, closed part: every function word x (no argument, every single argument, every pair whose first
    # argument is a typical one) - the generated search draws longer and stranger argument lists on top
    for f in lang.ALL_FUNCTION_WORDS:
        cases.append({"cls": "iii", "argv": ["select %s() from . into list" % f], "expect2": False})
        for a in FUNC_ARGS:
            cases.append({"cls": "iii", "argv": ["select %s(%s) from . into list" % (f, a)], "expect2": False})
            for b in (FUNC_ARGS if tier != "quick" else FIRST_ARGS):
                cases.append({"cls": "iii", "argv": ["select %s(%s, %s) from . into list" % (f, b, a)], "expect2": False})
    # class vi, closed part: every pattern root x (regexp after a depth option | regexp directly | no option)
    for r in RX_ROOTS:
        for tail in (" depth 1 rx", " depth 1 regexp", " rx", " mindepth 1 regexp dfs", ""):
            cases.append({"cls": "vi", "argv": ["name from %s%s" % (r, tail)], "expect2": False})
    for col in ["name", "path", "ext", "dir", "mode", "lower(name)"]:
        for op in ["=~", "~=", "regexp", "rx", "!=~", "!~="]:
            for lit in BAD_REGEX:
                cases.append({"cls": "iv:regex", "argv": ["select name from . where %s %s %s" % (col, op, lit)], "expect2": True})
    for col in ["modified", "accessed", "created", "exif_datetime"]:
        for op in DATE_OPS:
            for lit in BAD_DATES:
                cases.append({"cls": "iv:date", "argv": ["select name from . where %s %s %s" % (col, op, lit)], "expect2": True})
    for col in ["is_dir", "is_file", "is_hidden", "suid", "other_exec", "is_empty", "is_source"]:
        for op in ["=", "!=", "==", "ne", "eq"]:
            for lit in BAD_BOOLS:
                cases.append({"cls": "iv:bool", "argv": ["select name from . where %s %s %s" % (col, op, lit)], "expect2": True})
    for col in NUM_COLS:
        for op in NUM_OPS:
            for lit in BAD_NUMS:
                cases.append({"cls": "iv:num", "argv": ["select name from . where %s %s %s" % (col, op, lit)], "expect2": True})
    for col in ["size", "name", "modified", "is_dir", "ext"]:
        for op in ODD_OPS:
            for lit in ["3", "a", "true"]:
                toks = ["name", "from", ".", "where", col, op, lit]
                cases.append({"cls": "v:unknown-op", "argv": [" ".join(toks)], "expect2": True})
                cases.append({"cls": "v:unknown-op", "argv": toks, "expect2": True})
    for ncols in (1, 2, 3):
        cols = ", ".join(["name", "size", "path"][:ncols])
        for pos in ["0", str(ncols + 1), str(ncols + 7), "desc", ", desc", "desc name", "99999999999999999999", "00"]:
            for tail in ("", " limit 2", " into json"):
                cases.append({"cls": "v:order-pos", "argv": ["%s from . order by %s%s" % (cols, pos, tail)], "expect2": True})
    for v in ["x", "", "-1", "1.5", "ten", "into list", "99999999999", "'a'", "4294967296"]:
        cases.append({"cls": "v:limit", "argv": [("name from . limit " + v).strip()], "expect2": True})
        cases.append({"cls": "v:limit", "argv": [("name from . where size > 1 order by name limit " + v).strip()], "expect2": True})
    for v in ["xml", "", "yaml", "table", "'js on'", "limit"]:
        cases.append({"cls": "v:format", "argv": [("name from . into " + v).strip()], "expect2": True})
    for argv in [["name from", "r\udcff"], ["\udcff"], ["name", "from", ".", "where", "name", "=", "\udcff"], ["name from . where name = '\udcc3('"],
                 ["-c", "\udcff.toml", "name from ."], ["name", "\udcfe"]]:
        cases.append({"cls": "i", "argv": argv, "expect2": False})
    # nesting far beyond anything written by hand: rejected or evaluated, never a stack overflow
    for n in (600, 3000, 10000):
        cases.append({"cls": "i", "argv": ["name from . where " + "(" * n + "size > 1" + ")" * n], "expect2": False})
        cases.append({"cls": "i", "argv": ["lower(" * n + "name" + ")" * n + " from ."], "expect2": False})
        cases.append({"cls": "i", "argv": ["name from . where " + "{" * n + "size > 1"], "expect2": True})
    cases.append({"cls": "i", "argv": ["name from . where " + "not " * 30000 + "is_dir"], "expect2": False})
    # flat chains without any nesting, as long as a command line can be: one argument holds 128 KB, so the long
    # ones come as one argument per word (an argument with a blank in it would be taken for one text value);
    # the tree of `a or a or a ...` must not be as deep as the chain is long
    for word, cond in (("or", "size < 0"), ("and", "size >= 0")):
        cases.append({"cls": "i", "argv": ["name from . where " + cond + (" %s %s" % (word, cond)) * 9000], "expect2": False})
        for n in (20000, 40000):
            cases.append({"cls": "i", "argv": "name from . where".split() + cond.split() + ([word] + cond.split()) * n, "expect2": False})
    cases.append({"cls": "i", "argv": "name from . where size < 0".split() + "or size < 0 and is_dir".split() * 20000, "expect2": False})
    cases.append({"cls": "i", "argv": ["name from . where not ( size < 0" + " or size < 0" * 3000 + " )"], "expect2": False})
    for sign in ("+", "-", "*", "/", "%"):
        for n in (900, 17000, 30000):
            cases.append({"cls": "i", "argv": ["select 1" + (" %s 1" % sign) * n + " from ."], "expect2": False})
            cases.append({"cls": "i", "argv": ["name from . where size > 1" + (" %s 1" % sign) * n], "expect2": False})
    # the same chains with bracketed operands or function calls as operands (each opens an expression of its own)
    for term in ("(1)", "length(name)", "{size}", "abs(-1)"):
        for n in (900, 9000):
            n = min(n, 120000 // (len(term) + 3))
            cases.append({"cls": "i", "argv": ["select " + term + (" + " + term) * n + " from ."], "expect2": False})
            cases.append({"cls": "i", "argv": ["name from . where " + term + (" * " + term) * n + " > 0"], "expect2": False})
    cases.append({"cls": "i", "argv": ["select concat(" + "name, " * 20000 + "name) from ."], "expect2": False})
    cases.append({"cls": "i", "argv": ["select name" + ", name" * 20000 + " from . limit 1"], "expect2": False})
    # a bracket opened right after a function word and never closed; a `not` with nothing to negate
    for f in ["lower", "length", "concat", "abs", "year", "min"]:
        for t in ["%s( from .", "name, %s(", "name, %s(( from .", "name, %s{ from .", "name from . where size > %s(",
                  "name from . where size > 1 and %s(", "name from . order by %s(( desc", "name from . group by %s(",
                  "name, %s( limit x", "name, %s( into json", "name, %s(name =!= x from ."]:
            cases.append({"cls": "v:unbalanced", "argv": [t % f], "expect2": True})
    for t in ["name from . where is_file not", "name from . where size > 1 and is_file not", "name from . where (is_file not) or is_dir",
              "name from . where name not", "name from . where is_file not order by name", "name from . where size not"]:
        cases.append({"cls": "v:dangling-op", "argv": [t], "expect2": True})
        cases.append({"cls": "v:dangling-op", "argv": t.split(), "expect2": True})
    for toks in [["from", "."], ["from", ".", "where", "size", ">", "1"], ["where", "size", ">", "1"], ["into", "json"],
                 ["order", "by", "name"], ["limit", "5"], ["select"], ["select", "from", "."], [","],
                 ["select", ",", "from", "sub"], ["from", ".", "into", "list"], ["and"], [")"], ["select", "into", "csv"]]:
        cases.append({"cls": "v:no-column", "argv": [" ".join(toks)], "expect2": True})
        cases.append({"cls": "v:no-column", "argv": toks, "expect2": True})
    return cases


def judge(out, case, res):
    argv = case["argv"]
    cls = case["cls"]
    base = cls.split(":")[0]
    if res.wall_timeout:
        out.inconclusive = True
        return
    if res.cpu_timeout:
        out.add("C10/hang", cls=cls, argv=argv)
        return
    if b"panicked at" in res.err or res.status == 101:
        where = ""
        try:
            line = res.err.split(b"panicked at ", 1)[1].split(b"\n", 1)[0].decode("utf-8", "replace")
            where = line.split(":")[0]
        except Exception:
            pass
        out.add("C10/panic", cls=cls, argv=argv, stderr=res.err[:300], where=where)
        return
    if res.sig is not None or res.status not in (0, 1, 2):
        out.add("C10/status", cls=cls, argv=argv, status=res.status, signal=res.sig, stderr=res.err[:300])
        return
    if res.err.startswith(b"query:") and res.out:
        out.add("C10/rows-after-parse-rejection", cls=cls, argv=argv, stdout=res.out[:200], stderr=res.err[:200])
    if case["expect2"]:
        if res.status != 2:
            out.add("C10/not-status-2/" + cls, argv=argv, status=res.status, stdout=res.out[:200], stderr=res.err[:200])
        elif not res.err.strip():
            out.add("C10/no-diagnostic/" + cls, argv=argv)


def check(case):
    out = Outcome()
    res = runner.run_jailed(jail(), case["argv"], cwd="/t")
    out.evals = 1
    judge(out, case, res)
    base = case["cls"].split(":")[0]
    out.nontrivial = base in ("iii", "iv", "v", "vi") or res.status in (1, 2)
    out.classes = ["class=" + case["cls"], "status=%s" % (res.status if res.sig is None else "sig%d" % res.sig),
                   "args=%s" % ("1" if len(case["argv"]) == 1 else "many")]
    out.sample = {"cls": case["cls"], "argv": case["argv"], "status": res.status,
                  "stderr": res.err[:120].decode("utf-8", "replace")}
    return out


def _c(cls, argv, expect2):
    return {"cls": cls, "argv": argv, "expect2": expect2}


PINNED = [
    ("order-by-0", _c("v:order-pos", ["name from . order by 0"], True)),
    ("order-by-3-of-1", _c("v:order-pos", ["name from . order by 3"], True)),
    ("order-by-desc", _c("v:order-pos", ["name from . order by desc"], True)),
    ("unknown-op", _c("v:unknown-op", ["name from . where size =! 3"], True)),
    ("leading-slash", _c("i", ["/"], False)),
    ("leading-percent", _c("i", ["% from ."], False)),
    ("dash-c-alone", _c("i", ["-c"], False)),
    ("substr-bad-pos", _c("iii", ["select substr(name, x) from ."], False)),
    ("substr-neg-len", _c("iii", ["select substr(name, 2, -1) from ."], False)),
    ("replace-one-arg", _c("iii", ["select replace(name, a) from ."], False)),
    ("power-bad", _c("iii", ["select power(2, x) from ."], False)),
    ("log-bad", _c("iii", ["select log(2, x) from ."], False)),
    ("format-time-text", _c("iii", ["select format_time(name) from ."], False)),
    ("rand-zero", _c("iii", ["select rand(0) from ."], False)),
    ("rand-reversed", _c("iii", ["select rand(5, 1) from ."], False)),
    ("bool-maybe", _c("iv:bool", ["name from . where is_dir = maybe"], True)),
    ("date-25-61", _c("iv:date", ["name from . where modified = '2020-02-28 25:61'"], True)),
    ("group-by-incomplete", _c("i", ["count(*) from . group by length("], False)),
    ("order-by-incomplete", _c("i", ["name from . order by size +"], False)),
    ("bad-regex", _c("iv:regex", ["name from . where name =~ '('"], True)),
    ("unbalanced", _c("v:unbalanced", ["name from . where (size > 1"], True)),
    ("no-column", _c("v:no-column", ["from ."], True)),
    ("limit-x", _c("v:limit", ["name from . limit x"], True)),
    ("into-xml", _c("v:format", ["name from . into xml"], True)),
    ("format-precision-overflow", _c("iii", ["select format_size(size, '%.99999999999') from . into list"], False)),
    ("format-precision-65536", _c("iii", ["select format_size(size, '%.65536') from ."], False)),
    ("regexp-root-malformed", _c("vi", ["name from './[a' depth 1 rx"], False)),
    ("date-function-non-ascii", _c("iii", ["select day('é日本') from . into list"], False)),
    ("english-date-time-out-of-range", _c("iv:date", ["name from . where modified > '99:99:99'"], True)),
    ("date-non-ascii-digit", _c("iv:date", ["select name from . where modified = '2020-0\u0661-01'"], True)),
    ("english-date-decimal", _c("iii", ["select day('922354.75817', '2') from . limit 1"], False)),
]


def _fn_argv(data):
    """eval_total input -> a query for the real binary, or None when the strings cannot be spelled in a query."""
    parts = data.decode("utf-8", "replace").split("\x01")
    fname = parts[0].strip()
    args = parts[1:5]
    if not fname or any(("'" in a) or ("\0" in a) for a in args):
        return None
    return ["select %s(%s) from . limit 1" % (fname, ", ".join("'%s'" % a for a in args))]


def supplement(tier, seed):
    """libFuzzer campaigns: Parser::parse (parse_total) and function::get_value on arbitrary argument strings
    (eval_total, needs the error_exit hook); artifacts are re-judged on the real binary."""
    from .. import fuzzrun
    ok, msg = fuzzrun.build_targets()
    if not ok:
        return {"available": False, "reason": msg[-300:]}
    res = fuzzrun.campaign("parse_total", 10000 if tier == "quick" else 400000, seed)
    ev = fuzzrun.campaign("eval_total", 20000 if tier == "quick" else 1000000, seed, max_len=96,
                          seeds="seeds-eval", dictionary="dict-eval.txt")
    arts = [("parse", k, d) for k, d in res.pop("artifacts", [])] + [("eval", k, d) for k, d in ev.pop("artifacts", [])]
    res = {"available": res.get("available") and ev.get("available"), "parse_total": res, "eval_total": ev}
    res["artifacts_found"] = len(arts)
    res["reproduced_on_binary"] = 0
    res["not_reproduced_discarded"] = 0
    vio = []
    for target, kind, data in arts[:40]:
        if target == "parse":
            text = data.decode("utf-8", "replace")
            argv = [a for a in text.split("\x01")[:12]]
            if not any(a.strip() for a in argv) or any("\0" in a for a in argv):
                argv = None
        else:
            argv = _fn_argv(data)
        if argv is None:
            res["not_reproduced_discarded"] += 1
            continue
        case = {"cls": "fuzz", "argv": argv, "expect2": False}
        out = check(case)
        if out.discs:
            res["reproduced_on_binary"] += 1
            vio.append((case, [d.to_json() for d in out.discs]))
        else:
            res["not_reproduced_discarded"] += 1
    res["violations"] = vio
    return res
