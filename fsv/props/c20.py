"""C20 Ignore-file options remove exactly the ignored entries (DESIGN.md 4, C20)."""
import collections
import os
import re
import subprocess

from hypothesis import strategies as st

from .. import model, runner, trees
from ..engine import Outcome

ID = "C20"
LEVEL = "exploration"
RULE = ("trees of depth <= 4 over a small vocabulary (build, src, docs, a.log, a.logx, keep.log, x.tmp, abc, abbc, ...) "
        "with an ignore file in the repository root: 1..6 lines from literal name, *.ext, dir/, dir/*.ext, **/name, a?c, "
        "comments, blank lines, !negation (git, docker) and `syntax: glob|regexp` sections with \\.ext$, ^dir, name (hg); "
        "half of the cases use one pattern kind only. Root spelled `.`, `./`, relative sub-directory, absolute, absolute "
        "sub-directory, with the cwd at the repository root or below it; switch given as root option, configuration "
        "default, configuration default + `no...` override, or absent; optionally with dfs and mindepth / maxdepth windows (the unfiltered listing uses the same window). Oracle: git's verdict from `git check-ignore "
        "--no-index`; hg and docker from reference matchers written from the tools' documentation; expected rows = "
        "unfiltered listing minus entries that are ignored or lie below an ignored directory; with the switch off the "
        "listing must be the unfiltered one. A fifth of the cases put two repositories / contexts (own tree, own ignore file) "
        "side by side and search both in one query (option on both roots, on one only, or by configuration; relative and "
        "absolute roots; either order): the rows must be those of the two single-root queries together. Non-trivial = some entry ignored and some not, and (a negation applies, or "
        "the root is not the repository root, or the root is relative; for two roots: both roots filter something); distinct by canonical JSON of the case.")
ASSUMPTIONS = [
    "patterns outside the generated subset (character classes, escapes, subinclude, rootglob:), global git excludes and nested repositories are not generated",
    "git and hg cannot re-include an entry below an ignored directory; Docker can (`sub` then `!sub/keep.txt`), its matcher decides per path",
    "the hg and docker references are this harness' reading of hgignore(5) and the Docker build documentation for the generated subset",
]

VOCAB_F = ["a.log", "a.logx", "keep.log", "x.tmp", "abc", "abbc", "ac", "b.log", "test.txt", "notes.md", "abc.log", "Build.txt",
           "x", "x\\y.txt"]          # a backslash is an ordinary character of a name
VOCAB_D = ["build", "src", "docs", "lib", "abc", "logs", "tmp", "we\\ird"]
TOOLS = {"git": (".gitignore", "gitignore", "git", "nogitignore"),
         "hg": (".hgignore", "hgignore", "hg", "nohgignore"),
         "docker": (".dockerignore", "dockerignore", "dock", "nodockerignore")}

GLOB_KINDS = ["name", "ext", "dir-slash", "dir-ext", "starstar", "qmark"]
GLOB_PATTERNS = {
    "name": ["build", "abc", "keep.log", "src", "logs", "x.tmp", "x"],
    "ext": ["*.log", "*.tmp", "*.md", "a.*"],
    "dir-slash": ["build/", "docs/", "abc/", "src/lib/"],
    "dir-ext": ["src/*.log", "build/*.tmp", "docs/*.md", "src/lib/*.log"],
    "starstar": ["**/abc", "**/keep.log", "**/logs", "src/**/a.log"],
    "qmark": ["a?c", "a??c", "?.log", "x.tm?"],
}
HG_REGEXPS = ["\\.log$", "\\.tmp$", "^build", "^src/lib", "abc", "keep\\.log", "^docs/", "logx$",
              # the classic idiom for "this name at any level": the anchor is not the first character of the pattern
              "(^|/)build$", "(?:^|/)src", "(^|/)abc", "(^|/)a\\.log$", "(^|/)docs/"]


def examples(tier):
    return 5600 if tier == "quick" else 70000


@st.composite
def strategy_(draw, tier, tool=None):
    # files, and now and then a symbolic link (to a name that may or may not be ignored itself, or to nothing):
    # a link is judged by its own name, like every other entry
    leaf = st.sampled_from([{"t": "f", "c": ""}] * 6 + [{"t": "l", "to": "keep.log"}, {"t": "l", "to": "../notes.md"}, {"t": "l", "to": "nowhere"},
                                                        {"t": "l", "to": "../build"}])
    names = st.one_of(st.sampled_from(VOCAB_F), st.sampled_from(VOCAB_F), st.sampled_from(VOCAB_D))
    dnames = st.sampled_from(VOCAB_D)
    spec = trees.grow(draw, [4, 7, 10, 14, 18], st.one_of(names, dnames), leaf, dir_ratio=(2, 5), max_depth=4)
    # patterns that mention names present in the tree are preferred, so that most cases ignore something
    present = {rel[-1] for rel, n, _ in trees.walk(spec)}
    pdirs = ["/".join(d) for d in trees.dirs_of(spec)]
    pool = {k: list(v) for k, v in GLOB_PATTERNS.items()}
    pool["name"] = sorted(present)[:8] + pool["name"][:2] if present else pool["name"]
    if pdirs:
        pool["dir-slash"] = [d + "/" for d in pdirs[:6]] + pool["dir-slash"][:1]
        pool["dir-ext"] = [d + "/*.log" for d in pdirs[:4]] + [d + "/*.*" for d in pdirs[:2]] + pool["dir-ext"][:1]
        pool["starstar"] = ["**/" + d.split("/")[-1] for d in pdirs[:3]] + pool["starstar"]
    tool = tool or draw(st.sampled_from(["git", "hg", "docker"]))
    single = draw(st.booleans())
    nlines = draw(st.sampled_from([1, 1, 2, 3, 4, 6]))
    lines = []
    if tool == "hg":
        syntax = draw(st.sampled_from(["glob", "glob", "regexp", "default-regexp"]))
        if syntax != "default-regexp":
            lines.append("syntax: " + syntax)
        kinds = list(GLOB_KINDS)     # `dir/` is `dir` to Mercurial (patterns are normalised)
        k0 = draw(st.sampled_from(kinds))
        for i in range(nlines):
            extra = draw(st.sampled_from(["", "", "", "#", "blank", "switch"]))
            if extra == "#":
                lines.append("# a comment")
            elif extra == "blank":
                lines.append("")
            elif extra == "switch" and not single:
                syntax = "regexp" if syntax == "glob" else "glob"
                lines.append("syntax: " + syntax)
            if syntax == "glob":
                k = k0 if single else draw(st.sampled_from(kinds))
                lines.append(draw(st.sampled_from(pool[k])))
            else:
                esc = [re.sub(r"([\\\\.\[\](){}+*?^$|])", r"\\\1", d) for d in pdirs[:3]]
                lines.append(draw(st.sampled_from(HG_REGEXPS + ["^" + d for d in esc] + ["(^|/)" + d.split("/")[-1] + "$" for d in esc])))
    else:
        k0 = draw(st.sampled_from(GLOB_KINDS))
        for i in range(nlines):
            extra = draw(st.sampled_from(["", "", "", "#", "blank"]))
            if extra == "#":
                lines.append("# a comment")
            elif extra == "blank":
                lines.append("")
            k = k0 if single else draw(st.sampled_from(GLOB_KINDS))
            lines.append(draw(st.sampled_from(pool[k])))
        if draw(st.sampled_from(range(3))) == 0:
            lines.append("!" + draw(st.sampled_from(["keep.log", "abc", "a.log", "notes.md", "src/a.log", "x.tmp",
                                                    "*.txt", "*.log", "*.md", "a*", "keep.*"])))
    if tool == "docker" and pdirs and draw(st.sampled_from(range(4))) == 0:
        # an excluded directory with an exception inside it: `sub`, ..., `!sub/file`
        d = draw(st.sampled_from(pdirs))
        inside = ["/".join(rel) for rel, n, _ in trees.walk(spec) if "/".join(rel).startswith(d + "/")]
        if inside:
            lines = [draw(st.sampled_from([d, d + "/", d + "/*"]))] + lines + ["!" + draw(st.sampled_from(inside))]
    tops = [n for n, nd in spec.items() if nd["t"] == "d"]
    root = draw(st.sampled_from(["dot", "dot", "dotslash", "abs", "sub", "abs-sub", "cwd-below"]))
    sub = draw(st.sampled_from(tops)) if tops else None
    if sub is None and root in ("sub", "abs-sub", "cwd-below"):
        root = "dot"
    mode = draw(st.sampled_from(["", "", "", "dfs", "mindepth 2", "mindepth 3", "maxdepth 2", "mindepth 2 dfs", "mindepth 2 maxdepth 3"]))
    if tool in ("git", "docker") and pdirs and draw(st.sampled_from(range(8))) == 0:
        # a directory ignored ABOVE the depth window whose children a later wildcard negation would re-include if they
        # were judged one by one: they stay ignored (git: a file below an excluded directory cannot be re-included;
        # docker decides per path - the reference knows) - and the window must not change the verdicts
        d = draw(st.sampled_from(pdirs))
        exts = sorted({"/".join(rel).rsplit(".", 1)[-1] for rel, n, _ in trees.walk(spec)
                       if "/".join(rel).startswith(d + "/") and "." in rel[-1] and n["t"] != "d"})
        if exts:
            lines = [d.split("/")[-1] + "/", "!*." + draw(st.sampled_from(exts))] + lines[:1]
            mode = draw(st.sampled_from(["mindepth %d" % (d.count("/") + 2), "mindepth %d dfs" % (d.count("/") + 2), mode]))
    return {"tree": spec, "tool": tool, "lines": lines, "root": root, "sub": sub,
            "switch": draw(st.sampled_from(["option", "option", "alias", "config", "config+no", "absent"])),
            # traversal and depth options next to the ignore switch: what is ignored must not depend on them
            "mode": mode}


@st.composite
def several_roots_(draw, tier):
    """Two repositories / build contexts side by side, each with its own ignore file, searched in ONE query."""
    tool = draw(st.sampled_from(["git", "hg", "docker"]))
    a = draw(strategy_(tier, tool))
    b = draw(strategy_(tier, tool))
    shape = draw(st.sampled_from(["two-repos", "two-repos", "two-repos-abs", "same-repo-twice", "repo-and-its-subdir",
                                  "nested-contexts", "nested-contexts"]))
    return {"kind": "several-roots", "tool": tool, "shape": shape, "A": {"tree": a["tree"], "lines": a["lines"], "sub": a["sub"]},
            "B": {"tree": b["tree"], "lines": b["lines"]}, "swap": draw(st.booleans()),
            "switch": draw(st.sampled_from(["option", "option", "alias", "config", "first-only", "second-only"])),
            "mode": draw(st.sampled_from(["", "", "dfs"]))}


@st.composite
def root_above_(draw, tier):
    """git: the search root is the directory ABOVE the repository (`fselect ... from ~/projects gitignore`)."""
    a = draw(strategy_(tier, "git"))
    return {"kind": "root-above", "tree": a["tree"], "lines": a["lines"], "mode": draw(st.sampled_from(["", "", "bfs", "dfs"])),
            "depth": draw(st.sampled_from([1, 1, 2]))}


def strategy(tier):
    return st.sampled_from(range(10)).flatmap(
        lambda i: several_roots_(tier) if i in (0, 1) else root_above_(tier) if i == 2 else strategy_(tier))


# ---------------------------------------------------------------- reference matchers

def glob_to_re(p, one_excludes_slash):
    """Translate the generated glob subset. `**/` = any number of leading directories, `**` = anything."""
    out = ""
    i = 0
    while i < len(p):
        c = p[i]
        if p.startswith("**/", i):
            out += "(?:.*/)?"
            i += 3
            continue
        if p.startswith("**", i):
            out += ".*"
            i += 2
            continue
        if c == "*":
            out += "[^/]*"
        elif c == "?":
            out += "[^/]" if one_excludes_slash else "."
        else:
            out += re.escape(c)
        i += 1
    return out


def hg_ignored(lines, rel):
    """hgignore(5): patterns are not rooted; glob = relglob; a regexp is rooted only with ^."""
    syntax = "regexp"
    for ln in lines:
        if not ln.strip() or ln.startswith("#"):
            continue
        if ln.startswith("syntax:"):
            syntax = ln.split(":", 1)[1].strip()
            continue
        if syntax == "glob":
            rx = "(?:|.*/)" + glob_to_re(ln.rstrip("/") if len(ln) > 1 else ln, False) + "(?:/|$)"
        else:
            rx = ln if ln.startswith("^") else ".*" + ln
        if re.match(rx, rel):
            return True
    return False


def docker_ignored(lines, rel):
    """Docker (moby patternmatcher, MatchesOrParentMatches): patterns rooted at the context directory; a pattern
    matches a path when it matches the path itself or one of its parent directories; the last matching line wins,
    ! re-includes."""
    state = False
    parts = rel.split("/")
    prefixes = ["/".join(parts[:i]) for i in range(1, len(parts) + 1)]
    for ln in lines:
        if not ln.strip() or ln.startswith("#"):
            continue
        neg = ln.startswith("!")
        pat = ln[1:] if neg else ln
        pat = pat.strip("/")
        rx = "^" + glob_to_re(pat, True) + "$"
        if any(re.match(rx, p) for p in prefixes):
            state = not neg
    return state


def libgit2_negation_quirk(lines, rel, direct):
    """True when `rel` is re-included in git only by a `!pattern` without slash that follows a pattern with a
    slash which matches rel (or rel lies below such an entry)."""
    pats = [ln for ln in lines if ln.strip() and not ln.startswith("#")]
    for i, ln in enumerate(pats):
        if not ln.startswith("!") or "/" in ln[1:]:
            continue
        neg = ln[1:]
        parts = rel.split("/")
        for k in range(1, len(parts) + 1):
            sub = "/".join(parts[:k])
            if re.match("^" + glob_to_re(neg, True) + "$", parts[k - 1]):
                for prev in pats[:i]:
                    if prev.startswith("!") or "/" not in prev.strip("/"):
                        continue
                    if re.match("^(?:.*/)?" + glob_to_re(prev.strip("/"), True) + "$", sub):
                        return True
    return False


def git_ignored_set(repo, rels):
    env = {"HOME": repo, "PATH": "/usr/bin:/bin", "GIT_CONFIG_NOSYSTEM": "1", "XDG_CONFIG_HOME": repo + "/.nocfg"}
    p = subprocess.run(["git", "check-ignore", "--no-index", "-z", "--stdin"], cwd=repo, env=env,
                       input=("\0".join(rels) + "\0").encode(), stdout=subprocess.PIPE, stderr=subprocess.PIPE)
    out = p.stdout.decode().split("\0")
    return {o for o in out if o}


# ---------------------------------------------------------------- check

def listing(out, cwd, root_text, opts, cfg, tag):
    q = "path from %s%s into list" % (root_text, opts)
    res = runner.run([q], cwd=cwd, cfg=cfg)
    out.evals += 1
    if res.wall_timeout:
        out.inconclusive = True
        return None, q
    if res.status != 0 or res.sig is not None or res.err:
        out.add(tag + "/run-failed", query=q, status=res.status, signal=res.sig, stderr=res.err[:300])
        return None, q
    return [r[0] for r in runner.rows(res.out, 1)], q


def _mkrepo(path, tool, tree, lines):
    os.mkdir(path)
    trees.materialize(path, tree)
    with open(os.path.join(path, TOOLS[tool][0]), "w") as f:
        f.write("\n".join(lines) + "\n")
    if tool == "git":
        subprocess.run(["git", "init", "-q", "."], cwd=path, stdout=subprocess.DEVNULL, stderr=subprocess.DEVNULL,
                       env={"HOME": path, "PATH": "/usr/bin:/bin", "GIT_CONFIG_NOSYSTEM": "1"})
    elif tool == "hg":
        os.mkdir(os.path.join(path, ".hg"))


def check_several(case):
    """One query over two roots == the two single-root queries put together (each of which the main oracle judges)."""
    out = Outcome()
    cdir = runner.new_case_dir()
    tool = case["tool"]
    fname, opt, alias, noopt = TOOLS[tool]
    try:
        _mkrepo(os.path.join(cdir, "one"), tool, case["A"]["tree"], case["A"]["lines"])
        _mkrepo(os.path.join(cdir, "two"), tool, case["B"]["tree"], case["B"]["lines"])
        shape = case["shape"]
        if shape == "nested-contexts" and tool == "git":
            shape = "two-repos"          # nested git repositories are not generated
        if shape == "nested-contexts":
            # an inner context with its own ignore file inside the outer one: each root is judged by the nearest file
            _mkrepo(os.path.join(cdir, "one", "inner2"), tool, case["B"]["tree"], case["B"]["lines"])
            roots = ["one/" + case["A"]["sub"] if case["A"].get("sub") else "one", "one/inner2"]
        elif shape == "two-repos":
            roots = ["one", "two"]
        elif shape == "two-repos-abs":
            roots = [cdir + "/one", "two"]
        elif shape == "same-repo-twice":
            roots = ["one", "./one"]
        else:
            roots = ["one", "one/" + case["A"]["sub"]] if case["A"].get("sub") else ["one", "two"]
        if case["swap"]:
            roots.reverse()
        sw = case["switch"]
        cfg = "%s = true\n" % opt if sw == "config" else None
        word = {"option": opt, "alias": alias}.get(sw, opt)
        o = [" " + word, " " + word]
        if sw == "config":
            o = ["", ""]
        elif sw == "first-only":
            o = [" " + word, ""]
        elif sw == "second-only":
            o = ["", " " + word]
        mode = (" " + case["mode"]) if case["mode"] else ""
        singles = []
        for r, oo in zip(roots, o):
            rows, q1 = listing(out, cdir, r, oo + mode, cfg, "C20/%s/several-roots" % tool)
            if rows is None:
                return out
            singles.append(rows)
        both, q = listing(out, cdir, "%s%s%s, %s" % (roots[0], o[0], mode, roots[1]), o[1] + mode, cfg, "C20/%s/several-roots" % tool)
        if both is None:
            return out
        want = collections.Counter(singles[0])
        if os.path.realpath(os.path.join(cdir, roots[0])) != os.path.realpath(os.path.join(cdir, roots[1])):
            want += collections.Counter(singles[1])
        else:
            want = None   # the same directory twice: whether the second visit lists anything is C18's business
        r0, r1 = (os.path.realpath(os.path.join(cdir, r)) for r in roots)
        if r0.startswith(r1 + "/") or r1.startswith(r0 + "/"):
            want = None   # nested roots: entries are visited once or twice, not asserted here
        got = collections.Counter(both)
        if want is not None and got != want:
            under = sorted((got - want).elements())[:6]
            over = sorted((want - got).elements())[:6]
            out.add("C20/%s/several-roots/%s" % (tool, "under-ignore" if under else "over-ignore"), query=q, shape=shape,
                    lines_one=case["A"]["lines"], lines_two=case["B"]["lines"], wrongly_listed=under, wrongly_missing=over)
        elif want is None:
            # weaker claim: nothing is listed that neither single-root query lists
            allowed = set(singles[0]) | set(singles[1])
            extra = sorted(set(both) - allowed)[:6]
            if extra:
                out.add("C20/%s/several-roots/under-ignore" % tool, query=q, shape=shape, lines_one=case["A"]["lines"], wrongly_listed=extra)
        U = []
        for r in roots:
            rows, _ = listing(out, cdir, r, mode, None, "C20/%s/several-roots" % tool)
            U.append(rows or [])
        filtered = [len(a) < len(b) for a, b in zip(singles, U)]
        out.nontrivial = want is not None and all(filtered) and bool(both)
        out.classes = sorted({"several-roots", "shape=" + shape, "tool=" + tool, "switch=" + sw} |
                             ({"both-roots-filter-something"} if all(filtered) else set()))
        out.sample = {"tool": tool, "query": q, "listed": len(both)}
    finally:
        runner.rmtree(cdir)
    return out


def check_above(case):
    out = Outcome()
    cdir = runner.new_case_dir()
    try:
        top = os.path.join(cdir, "top")
        os.mkdir(top)
        holder = top
        for i in range(case["depth"] - 1):
            holder = os.path.join(holder, "mid%d" % i)
            os.mkdir(holder)
        repo = os.path.join(holder, "repo")
        _mkrepo(repo, "git", case["tree"], case["lines"])
        os.mkdir(os.path.join(top, "other"))
        for n in ("o.log", "a.log", "keep.txt"):
            open(os.path.join(top, "other", n), "w").close()
        mode = (" " + case["mode"]) if case["mode"] else ""
        U, q0 = listing(out, top, ".", mode, None, "C20/git/root-above")
        got, q = listing(out, top, ".", " gitignore" + mode, None, "C20/git/root-above")
        if U is None or got is None:
            return out
        nogit = lambda ps: [p for p in ps if "/.git/" not in p + "/"]
        U, got = nogit(U), nogit(got)
        prefix = "./" + os.path.relpath(repo, top) + "/"
        inside = {p: p[len(prefix):] for p in U if p.startswith(prefix)}
        ask = [r + "/" if os.path.isdir(os.path.join(repo, r)) and not os.path.islink(os.path.join(repo, r)) else r for r in inside.values()]
        ign = {a.rstrip("/") for a in git_ignored_set(repo, ask)}
        def omitted(r):
            parts = r.split("/")
            return any("/".join(parts[:i]) in ign for i in range(1, len(parts) + 1))
        want = [p for p in U if p not in inside or not omitted(inside[p])]
        cw, cg = collections.Counter(want), collections.Counter(got)
        if cw != cg:
            under = sorted((cg - cw).elements())
            over = sorted((cw - cg).elements())
            neg = any(ln.startswith("!") for ln in case["lines"])
            # a link to a directory hidden by a directory-only pattern is K05, judged by the main check only
            dironly = [ln.strip("/").split("/")[-1] for ln in case["lines"] if ln.endswith("/") and not ln.startswith(("#", "!"))]
            def k05(p):
                full = os.path.join(top, p)
                return os.path.islink(full) and os.path.isdir(full) and \
                    any(re.match("^" + glob_to_re(d, True) + "$", p.rstrip("/").split("/")[-1]) for d in dironly)
            k05_hit = [p for p in over if k05(p)]
            over = [p for p in over if p not in k05_hit]
            if k05_hit:
                out.classes.append("k05-in-root-above")
            if (under or over) and not (neg and over):     # libgit2's negation quirks (K01/K03) are judged by the main check only
                out.add("C20/git/root-above/%s" % ("under-ignore" if under else "over-ignore"), query=q, lines=case["lines"],
                        wrongly_listed=under[:6], wrongly_ignored=over[:6], mode=case["mode"] or "bfs")
        out.nontrivial = len(want) < len(U) and any("/" in r for r in inside.values() if omitted(r))
        out.classes = list(out.classes) + ["root-above-repository", "mode=" + (case["mode"] or "default")]
        out.sample = {"query": q, "lines": case["lines"], "listed": len(got), "unfiltered": len(U)}
    finally:
        runner.rmtree(cdir)
    return out


def enumerate_cases(tier):
    # the ignore file sits in an ancestor of the root - and that ancestor is the root directory of the file system
    cases = [{"kind": "fs-root-context", "tool": t, "root": r, "mode": m}
             for t in ("hg", "docker") for r in ("/proj", "/proj/sub", "/") for m in ("", "dfs")]
    cases += [{"kind": "context-chain", "tool": t, "root": r, "mode": m} for t in ("docker", "hg") for r in ("dot", "rel", "abs") for m in ("", "dfs")]
    # a symbolic link that leads to a directory and carries a name a directory-only pattern ignores (git: a link is no
    # directory); a negation with a directory part after a wildcard basename pattern
    ltree = {"real": {"t": "d", "ch": {"f.txt": {"t": "f", "c": ""}}}, "build": {"t": "l", "to": "real"}, "lnk": {"t": "l", "to": "real"},
             "out": {"t": "d", "ch": {"x": {"t": "f", "c": ""}}}, "keep.txt": {"t": "f", "c": ""}}
    ntree = {"a.log": {"t": "f", "c": ""}, "sub": {"t": "d", "ch": {"a.log": {"t": "f", "c": ""}, "b.log": {"t": "f", "c": ""}}}}
    for root in ("dot", "abs"):
        for mode in ("", "dfs"):
            cases.append({"tree": ltree, "tool": "git", "lines": ["build/", "out/"], "root": root, "sub": None, "switch": "option", "mode": mode})
            cases.append({"tree": ltree, "tool": "hg", "lines": ["syntax: glob", "build/", "out/"], "root": root, "sub": None, "switch": "option", "mode": mode})
            cases.append({"tree": ltree, "tool": "docker", "lines": ["build/", "out/"], "root": root, "sub": None, "switch": "option", "mode": mode})
            for first in ("?.log", "a*", "*.log"):
                cases.append({"tree": ntree, "tool": "git", "lines": [first, "!sub/a.log"], "root": root, "sub": None, "switch": "option", "mode": mode})
    return cases


_fsroot = {"pid": None, "jail": None}


def check_fs_root(case):
    out = Outcome()
    if _fsroot["pid"] != os.getpid() or not _fsroot["jail"] or not os.path.isdir(_fsroot["jail"]):
        def pop(j):
            os.makedirs(j + "/proj/sub")
            os.makedirs(j + "/.hg")
            for n in ("proj/a.log", "proj/keep.txt", "proj/sub/b.log", "proj/sub/c.txt", "top.log"):
                open(j + "/" + n, "w").close()
            with open(j + "/.hgignore", "w") as f:
                f.write("syntax: glob\n*.log\nsyntax: regexp\n(^|/)c\\.txt$\n")
            with open(j + "/.dockerignore", "w") as f:
                f.write("**/*.log\n**/c.txt\n")
        _fsroot.update(pid=os.getpid(), jail=runner.make_jail(pop))
    j = _fsroot["jail"]
    opt = {"hg": "hgignore", "docker": "dockerignore"}[case["tool"]]
    q = "path from %s %s%s into list" % (case["root"], opt, (" " + case["mode"]) if case["mode"] else "")
    q0 = "path from %s%s into list" % (case["root"], (" " + case["mode"]) if case["mode"] else "")
    res = runner.run_jailed(j, [q], cwd="/proj")
    res0 = runner.run_jailed(j, [q0], cwd="/proj")
    out.evals += 2
    if res.wall_timeout or res0.wall_timeout:
        out.inconclusive = True
        return out
    if res.status != 0 or res0.status != 0 or res.err or res0.err:
        out.add("C20/%s/fs-root-context/run-failed" % case["tool"], query=q, status=res.status, stderr=res.err[:200])
        return out
    got = sorted(r[0] for r in runner.rows(res.out, 1))
    plain = sorted(r[0] for r in runner.rows(res0.out, 1))
    want = [p for p in plain if not (p.endswith(".log") or p.endswith("/c.txt"))]
    if got != want:
        out.add("C20/%s/fs-root-context/%s" % (case["tool"], "under-ignore" if set(got) - set(want) else "over-ignore"), query=q,
                wrongly_listed=sorted(set(got) - set(want))[:6], wrongly_ignored=sorted(set(want) - set(got))[:6])
    out.nontrivial = len(want) < len(plain)
    out.nt_keys = ["fs-root|%s|%s|%s" % (case["tool"], case["root"], case["mode"])]
    out.classes = ["fs-root-context", "tool=" + case["tool"]]
    out.sample = {"query": q, "listed": len(got), "unfiltered": len(plain)}
    return out


def check_chain(case):
    """Two ignore files on the way from the search root up: the nearest context decides (docker: the build context's
    own .dockerignore; hg: the repository the root lies in - the nearest `.hg`), the outer one is not consulted."""
    out = Outcome()
    cdir = runner.new_case_dir()
    top = os.path.join(cdir, "outer")
    try:
        os.makedirs(top + "/ctx/sub")
        for f in ("ctx/a.log", "ctx/b.tmp", "ctx/keep.txt", "ctx/sub/c.log", "ctx/sub/d.tmp", "o.log", "o.tmp"):
            open(os.path.join(top, f), "w").close()
        tool = case["tool"]
        fname, opt, alias, noopt = TOOLS[tool]
        if tool == "hg":
            os.mkdir(top + "/.hg")
            os.mkdir(top + "/ctx/.hg")
            outer, inner = "syntax: glob\n*.tmp\n", "syntax: glob\n*.log\n"
        else:
            outer, inner = "**/*.tmp\n!**/a.log\n", "**/*.log\n"
        with open(os.path.join(top, fname), "w") as f:
            f.write(outer)
        with open(os.path.join(top, "ctx", fname), "w") as f:
            f.write(inner)
        mode = (" " + case["mode"]) if case["mode"] else ""
        root_text, cwd = {"dot": (".", top + "/ctx"), "rel": ("ctx", top), "abs": (top + "/ctx", cdir)}[case["root"]]
        got, q = listing(out, cwd, root_text, " " + opt + mode, None, "C20/%s/context-chain" % tool)
        plain, q0 = listing(out, cwd, root_text, mode, None, "C20/%s/context-chain" % tool)
        if got is None or plain is None:
            return out
        hidden = lambda p: os.path.basename(p) in (fname, ".hg")
        want = sorted(p for p in plain if not p.endswith(".log") and not hidden(p))
        got = sorted(p for p in got if not hidden(p))
        if got != want:
            out.add("C20/%s/context-chain/%s" % (tool, "under-ignore" if set(got) - set(want) else "over-ignore"), query=q,
                    wrongly_listed=sorted(set(got) - set(want))[:6], wrongly_ignored=sorted(set(want) - set(got))[:6])
        out.nontrivial = True
        out.nt_keys = ["chain|%s|%s|%s" % (tool, case["root"], case["mode"])]
        out.classes = ["context-chain", "tool=" + tool]
        out.sample = {"query": q, "listed": len(got)}
    finally:
        runner.rmtree(cdir)
    return out


def check(case):
    if case.get("kind") == "context-chain":
        return check_chain(case)
    if case.get("kind") == "fs-root-context":
        return check_fs_root(case)
    if case.get("kind") == "several-roots":
        return check_several(case)
    if case.get("kind") == "root-above":
        return check_above(case)
    out = Outcome()
    cdir = runner.new_case_dir()
    repo = os.path.join(cdir, "repo")
    os.mkdir(repo)
    tool = case["tool"]
    fname, opt, alias, noopt = TOOLS[tool]
    try:
        trees.materialize(repo, case["tree"])
        with open(os.path.join(repo, fname), "w") as f:
            f.write("\n".join(case["lines"]) + "\n")
        if tool == "git":
            subprocess.run(["git", "init", "-q", "."], cwd=repo, stdout=subprocess.DEVNULL, stderr=subprocess.DEVNULL,
                           env={"HOME": repo, "PATH": "/usr/bin:/bin", "GIT_CONFIG_NOSYSTEM": "1"})
        elif tool == "hg":
            os.mkdir(os.path.join(repo, ".hg"))
        sub = case["sub"]
        root = case["root"]
        cwd, root_text, prefix = repo, ".", ""
        if root == "dotslash":
            root_text = "./"
        elif root == "abs":
            root_text = repo
        elif root == "sub":
            root_text, prefix = sub, sub
        elif root == "abs-sub":
            root_text, prefix = repo + "/" + sub, sub
        elif root == "cwd-below":
            cwd, root_text, prefix = repo + "/" + sub, ".", sub
        mode = (" " + case["mode"]) if case["mode"] else ""
        # unfiltered listing
        U, q0 = listing(out, cwd, root_text, mode, None, "C20")
        if U is None:
            return out
        sw = case["switch"]
        cfg = None
        if sw == "option":
            opts = " " + opt
        elif sw == "alias":
            opts = " " + alias
        elif sw == "config":
            opts, cfg = "", "%s = true\n" % opt
        elif sw == "config+no":
            opts, cfg = " " + noopt, "%s = true\n" % opt
        else:
            opts = ""
        got, q = listing(out, cwd, root_text, opts + mode, cfg, "C20/" + tool)
        if got is None:
            return out
        # map displayed path -> path relative to the repository root
        def rel_of(p):
            # displayed paths are <root text>/<rel>; relative ones are relative to the process cwd
            if p.startswith("/"):
                return os.path.relpath(p, repo)
            return os.path.normpath(os.path.join(os.path.relpath(cwd, repo), p))
        rels = {p: rel_of(p) for p in U}
        on = sw in ("option", "alias", "config")
        if not on:
            if collections.Counter(got) != collections.Counter(U):
                out.add("C20/%s/switch-off-still-filters/%s" % (tool, sw), query=q, missing=sorted(set(U) - set(got))[:6])
        else:
            cand = {p: r for p, r in rels.items() if not (r == ".git" or r.startswith(".git/"))}
            # verdicts are computed for EVERY entry of the repository, not only the listed ones: with a depth window
            # an ignored ancestor directory may itself lie outside the listing
            every = set(cand.values())
            for dp, dn, fn in os.walk(repo):
                if ".git" in dn and dp == repo:
                    dn.remove(".git")
                for n in dn + fn:
                    every.add(os.path.relpath(os.path.join(dp, n), repo))
            if tool == "git":
                # directories are asked with a trailing slash so that `dir/` patterns apply
                ask = [r + "/" if os.path.isdir(os.path.join(repo, r)) and not os.path.islink(os.path.join(repo, r)) else r
                       for r in sorted(every)]
                ign = {a.rstrip("/") for a in git_ignored_set(repo, ask)}
                direct = {r for r in every if r in ign}
            elif tool == "hg":
                direct = {r for r in every if hg_ignored(case["lines"], r)}
            else:
                direct = {r for r in every if docker_ignored(case["lines"], r)}
            # an ignored directory hides its subtree (below the repository root)
            def omitted(r):
                if tool == "docker":
                    # Docker's matcher (MatchesOrParentMatches) already looks at the parents of every path, and a later
                    # `!` line re-includes a file below an excluded directory: the verdict of the path itself decides
                    return r in direct
                parts = r.split("/")
                return any("/".join(parts[:i]) in direct for i in range(1, len(parts) + 1))
            # ancestors above the search root matter too (root inside an ignored directory)
            anc_ignored = False
            if prefix:
                pp = prefix.split("/")
                anc = ["/".join(pp[:i]) for i in range(1, len(pp) + 1)]
                if tool == "git":
                    anc_ignored = bool(git_ignored_set(repo, [a + "/" for a in anc]))
                elif tool == "hg":
                    anc_ignored = any(hg_ignored(case["lines"], a) for a in anc)
                else:
                    anc_ignored = False      # Docker decides per path (parents included), see omitted()
            if True:
                # a root that lies below an ignored directory: every entry has an ignored ancestor
                want = [] if anc_ignored else [p for p in U if p in cand and not omitted(cand[p])]
                if anc_ignored:
                    out.classes.append("root-below-ignored-directory")
                gotc = [p for p in got if p in cand or p not in rels]
                cw, cg = collections.Counter(want), collections.Counter(gotc)
                if cw != cg:
                    over = sorted((cw - cg).elements())      # ignored although it should be listed
                    under = sorted((cg - cw).elements())     # listed although it should be ignored
                    if tool == "git" and under and anc_ignored and any(ln.startswith("!") for ln in case["lines"]):
                        # known finding K03: root inside an excluded directory + a negation: libgit2 re-includes the file
                        # although git cannot re-include below an excluded parent
                        out.add("C20/git/under-ignore/negation-inside-excluded-directory", query=q, lines=case["lines"],
                                wrongly_listed=[rels[p] for p in under][:6])
                        under = []
                        if not over:
                            cw = cg
                    if tool == "git" and over:
                        # known finding: libgit2 drops a negated basename pattern that follows a directory-prefixed
                        # pattern (its does_negate_rule heuristic), git itself re-includes the entry
                        known = [p for p in over if libgit2_negation_quirk(case["lines"], rels[p], direct)]
                        if known:
                            out.add("C20/git/over-ignore/negation-after-dir-pattern", query=q, lines=case["lines"],
                                    wrongly_ignored=[rels[p] for p in known][:6])
                            hidden = {rels[p] for p in known}
                            over = [p for p in over if p not in known and
                                    not any(rels[p].startswith(h + "/") for h in hidden)]
                            if not over and not under:
                                cw = cg
                    if tool == "git" and over:
                        # known finding K05: a directory-only pattern (`build/`) hides a symbolic link called `build` that
                        # leads to a directory: libgit2 decides "is a directory" with stat(), git with lstat()
                        dironly = [ln.strip("/").split("/")[-1] for ln in case["lines"] if ln.endswith("/") and not ln.startswith(("#", "!"))]
                        known = [p for p in over if os.path.islink(os.path.join(repo, rels[p])) and os.path.isdir(os.path.join(repo, rels[p]))
                                 and any(re.match("^" + glob_to_re(d, True) + "$", rels[p].split("/")[-1]) for d in dironly)]
                        if known:
                            out.add("C20/git/over-ignore/dir-pattern-hides-link-to-directory", query=q, lines=case["lines"],
                                    wrongly_ignored=[rels[p] for p in known][:6])
                            over = [p for p in over if p not in known]
                            if not over and not under:
                                cw = cg
                    if tool == "git" and over:
                        # known finding K06: a negation WITH a directory part (`!sub/a.log`) after a basename pattern that
                        # does not textually wild-match it (`?.log`, `a*`): libgit2 drops the negation while parsing
                        pats = [ln for ln in case["lines"] if ln.strip() and not ln.startswith("#")]
                        known = []
                        for p_ in over:
                            rel = rels[p_]
                            for i, ln in enumerate(pats):
                                if ln.startswith("!") and "/" in ln[1:].strip("/") and ln[1:].strip("/") == rel and \
                                        any("/" not in pv.strip("/") and not pv.startswith("!") and
                                            re.match("^" + glob_to_re(pv.strip("/"), True) + "$", rel.split("/")[-1]) and
                                            not re.match("^" + glob_to_re(pv.strip("/"), False).replace("[^/]", ".") + "$", rel) for pv in pats[:i]):
                                    known.append(p_)
                                    break
                        if known:
                            out.add("C20/git/over-ignore/path-negation-after-basename-wildcard", query=q, lines=case["lines"],
                                    wrongly_ignored=[rels[p] for p in known][:6])
                            over = [p for p in over if p not in known]
                            if not over and not under:
                                cw = cg
                if cw != cg and (over or under):
                    which = "over-ignore" if over else "under-ignore"
                    rootk = "root=" + ("repo" if not prefix and root != "abs" else root)
                    out.add("C20/%s/%s/%s" % (tool, which, rootk), query=q, lines=case["lines"], cwd_below=root == "cwd-below",
                            wrongly_ignored=[rels[p] for p in over][:6], wrongly_listed=[rels[p] for p in under][:6])
                ignored_some = len(want) < len([p for p in U if p in cand])
                neg = any(ln.startswith("!") for ln in case["lines"])
                out.nontrivial = ignored_some and bool(want) and (neg or bool(prefix) or root in ("dot", "dotslash", "sub", "cwd-below"))
                if ignored_some:
                    out.classes.append("some-ignored")
                if neg:
                    out.classes.append("negation")
        out.classes += ["tool=" + tool, "switch=" + sw, "root=" + root]
        out.classes = sorted(set(out.classes))
        out.sample = {"tool": tool, "lines": case["lines"], "query": q, "cwd": "repo" if cwd == repo else "repo/" + sub, "listed": len(got), "unfiltered": len(U)}
    finally:
        runner.rmtree(cdir)
    return out


_T = {"a.log": {"t": "f", "c": ""}, "a.logx": {"t": "f", "c": ""}, "keep.log": {"t": "f", "c": ""}, "abc": {"t": "f", "c": ""}, "abbc": {"t": "f", "c": ""},
      "build": {"t": "d", "ch": {"x.tmp": {"t": "f", "c": ""}, "o.log": {"t": "f", "c": ""}}},
      "src": {"t": "d", "ch": {"a.log": {"t": "f", "c": ""}, "main.rs": {"t": "f", "c": ""}, "lib": {"t": "d", "ch": {"b.log": {"t": "f", "c": ""}, "abc": {"t": "f", "c": ""}}}}},
      "docs": {"t": "d", "ch": {"notes.md": {"t": "f", "c": ""}}}}


def _c(tool, lines, root="dot", sub=None, switch="option", mode=""):
    return {"tree": _T, "tool": tool, "lines": lines, "root": root, "sub": sub, "switch": switch, "mode": mode}


PINNED = [
    ("git-dot-root", _c("git", ["*.log", "!keep.log", "build/"])),
    ("git-relative-sub", _c("git", ["*.log", "build/"], root="sub", sub="src")),
    ("git-cwd-below", _c("git", ["lib/", "*.log"], root="cwd-below", sub="src")),
    ("git-abs", _c("git", ["*.log", "**/abc"], root="abs")),
    ("git-config-default-and-override", _c("git", ["*.log"], switch="config+no")),
    ("hg-glob-tail", _c("hg", ["syntax: glob", "*.log"])),
    ("hg-rooted-regexp", _c("hg", ["syntax: regexp", "^build", "\\.tmp$"])),
    ("hg-qmark", _c("hg", ["syntax: glob", "a?c"])),
    ("docker-rooted", _c("docker", ["*.log", "build"])),
    ("hg-relative-sub-root", _c("hg", ["syntax: regexp", "^src/lib", "\\.tmp$"], root="sub", sub="src")),
    ("docker-negation-order", _c("docker", ["!keep.log", "*.log"])),
    ("docker-starstar", _c("docker", ["**/abc", "src/*.log"], root="abs-sub", sub="src")),
]
