"""C13 Date literals denote intervals; comparisons partition time consistently (DESIGN.md 4, C13)."""
import datetime
import os
import zoneinfo

from hypothesis import strategies as st

from .. import lang, model, runner
from ..engine import Outcome
from ..refs import dates

ID = "C13"
LEVEL = "exploration"
RULE = ("literals at day / hour / minute / second precision on ordinary days, month ends, year ends, 29 February and "
        "both DST transition days, spelled with `-` or `:` date separators, one- or two-digit fields, quoted or (day "
        "precision) unquoted, one argument or one argument per token, in TZ = UTC / America/New_York / Asia/Kolkata; "
        "the tree holds one file per grid point a-1, a, a+1, mid, b-1, b, b+1 seconds of the literal's interval [a,b]. "
        "All eight operators (= != < <= > >= === !==) and BETWEEN are run per literal. Relative literals (today, "
        "yesterday, -1, -7, +1) are evaluated under a controlled clock (LD_PRELOAD shim) with files at 00:00:00, "
        "12:00:00, 23:59:59 of the target local day and the seconds just outside. Oracle: reference intervals from "
        "the usage text applied to the file's local time (zoneinfo), trichotomy and union laws on fselect's own "
        "answers, and the `modified` column == strftime. Non-trivial = files exist within 1 s on both sides of each "
        "edge and the operator's answer is a proper non-empty subset; distinct by (tz, literal text, operator).")
ASSUMPTIONS = [
    "free-form English dates are not generated",
    "=== / !== are only asserted for second-precision literals (equal to a)",
    "Python zoneinfo (system tzdata) is the reference for local time; the clock shim only affects CLOCK_REALTIME of the child",
]

# Havana: the clock falls back from 01:00 to 00:00 (midnight occurs twice); Santiago: it jumps from 00:00 to 01:00
# (midnight does not occur at all on the first Sunday of September - the day exists all the same)
TZS = ["UTC", "America/New_York", "Asia/Kolkata", "America/Havana", "America/Santiago"]
DAYS = [(2020, 1, 15), (2020, 2, 29), (2021, 2, 28), (2020, 12, 31), (2021, 1, 1), (2020, 4, 30), (2020, 3, 8), (2020, 11, 1),
        (2019, 7, 4), (2024, 2, 29), (2023, 3, 12), (2023, 11, 5), (2022, 5, 31), (1999, 12, 31), (2030, 6, 9),
        (2022, 11, 6), (2018, 11, 4), (2022, 3, 13),   # Havana: ambiguous midnight twice, a spring-forward day
        (2038, 9, 5), (2040, 9, 2), (2024, 9, 8), (2038, 9, 4), (2038, 9, 6)]   # Santiago: days without a midnight, and their neighbours
OPS = ["=", "!=", "<", "<=", ">", ">=", "===", "!=="]
OP_SPELL = {"=": ["=", "==", "eq"], "!=": ["!=", "<>", "ne"], "<": ["<", "lt"], "<=": ["<=", "lte", "le"],
            ">": [">", "gt"], ">=": [">=", "gte", "ge"], "===": ["==="], "!==": ["!=="]}


def examples(tier):
    return 2800 if tier == "quick" else 28000


@st.composite
def strategy_(draw, tier):
    tz = draw(st.sampled_from(TZS if tier == "thorough" else TZS))
    if draw(st.sampled_from(range(4))) == 0:
        y, m, d = draw(st.sampled_from(DAYS))
        return {"tz": tz, "rel": draw(st.sampled_from(["today", "yesterday", "-1", "-7", "'+1'", "'-1'", "-30", "'+7'", "-365", "-999", "-1000",
                                                        "-1001", "'-3000'", "-10000", "'+1000'", "'+4000'", "+1", "+7", "+30"])),
                "clock_day": [y, m, d], "clock_hms": draw(st.sampled_from([[12, 0, 0], [0, 0, 0], [23, 59, 59], [3, 30, 0]])),
                "split": draw(st.booleans())}
    y, m, d = draw(st.sampled_from(DAYS))
    prec = draw(st.sampled_from(["day", "day", "hour", "minute", "second", "second"]))
    h = draw(st.sampled_from([0, 1, 2, 3, 9, 12, 23]))
    mi = draw(st.sampled_from([0, 1, 30, 59]))
    s = draw(st.sampled_from([0, 1, 30, 59]))
    return {"tz": tz, "ymd": [y, m, d], "prec": prec, "hms": [h, mi, s],
            "sep": draw(st.sampled_from(["-", "-", ":"])), "pad": draw(st.sampled_from([True, True, False])),
            "quoted": prec != "day" or draw(st.booleans()), "split": draw(st.booleans()),
            "spell": draw(st.sampled_from([0, 1, 2]))}


def strategy(tier):
    return strategy_(tier)


def literal_text(case):
    y, m, d = case["ymd"]
    h, mi, s = case["hms"]
    f = (lambda v: "%02d" % v) if case["pad"] else (lambda v: "%d" % v)
    t = "%04d%s%s%s%s" % (y, case["sep"], f(m), case["sep"], f(d))
    if case["prec"] in ("hour", "minute", "second"):
        t += " " + f(h)
    if case["prec"] in ("minute", "second"):
        t += ":" + f(mi)
    if case["prec"] == "second":
        t += ":" + f(s)
    return t


def to_epoch(naive, tz):
    """Epoch of a local naive time, or None when that local time does not exist / does not round-trip."""
    z = zoneinfo.ZoneInfo(tz)
    e = int(naive.replace(tzinfo=z).timestamp())
    back = datetime.datetime.fromtimestamp(e, z).replace(tzinfo=None)
    return e if back == naive else None


def run(out, base, tz, toks, split, ncols, clock=None):
    argv = toks if split else [" ".join(toks)]
    res = runner.run(argv, cwd=base, tz=tz, clock=clock)
    out.evals += 1
    if res.wall_timeout:
        out.inconclusive = True
        return None, argv, res
    if res.status != 0 or res.sig is not None or res.err:
        return None, argv, res
    try:
        return runner.rows(res.out, ncols), argv, res
    except ValueError:
        return None, argv, res


def check(case):
    out = Outcome()
    cdir = runner.new_case_dir()
    base = os.path.join(cdir, "t")
    os.mkdir(base)
    tz = case["tz"]
    nt = []
    try:
        if "rel" in case:
            y, m, d = case["clock_day"]
            hh, mm, ss = case["clock_hms"]
            now = to_epoch(datetime.datetime(y, m, d, hh, mm, ss), tz)
            if now is None:
                return out
            rel = case["rel"].strip("'")
            off = {"today": 0, "yesterday": -1}.get(rel)
            if off is None:
                off = int(rel)
            target = datetime.date(y, m, d) + datetime.timedelta(days=off)
            a = datetime.datetime.combine(target, datetime.time(0, 0, 0))
            b = datetime.datetime.combine(target, datetime.time(23, 59, 59))
            lit_text = case["rel"]
            full = False
            clock = now
            label = "rel:" + rel
        else:
            lt = literal_text(case)
            iv = dates.interval(lt)
            if iv is None:
                return out
            a, b = iv
            lit_text = lang.quote(lt) if case["quoted"] else lt
            full = case["prec"] == "second"
            clock = None
            label = case["prec"]
        mid = a + (b - a) / 2
        mid = mid.replace(microsecond=0)
        points = [a - datetime.timedelta(seconds=1), a, a + datetime.timedelta(seconds=1), mid,
                  b - datetime.timedelta(seconds=1), b, b + datetime.timedelta(seconds=1),
                  a - datetime.timedelta(days=1), b + datetime.timedelta(days=1)]
        files = {}
        for i, p in enumerate(points):
            e = to_epoch(p, tz)
            if e is None:
                continue
            nm = "f%d" % i
            open(os.path.join(base, nm), "w").close()
            os.utime(os.path.join(base, nm), (e, e))
            files[nm] = (e, p)
            # the same second with a sub-second part: still the same local-time second
            if i in (1, 5, 6, 0):
                nm = "f%dfrac" % i
                open(os.path.join(base, nm), "w").close()
                frac = {1: 500000000, 5: 999000000, 6: 1000000, 0: 750000000}[i]
                os.utime(os.path.join(base, nm), ns=(e * 1000000000 + frac, e * 1000000000 + frac))
                files[nm] = (e, p)
        if len(files) < 4:
            return out
        # `modified` column
        rows, argv, res = run(out, base, tz, ["select", "name,", "modified", "from", ".", "into", "list"], False, 2, clock)
        if rows is None:
            if not res.wall_timeout:
                out.add("C13/column-run-failed", argv=argv, status=res.status, stderr=res.err[:200])
        else:
            for nm, mod in rows:
                if nm in files and mod != files[nm][1].strftime("%Y-%m-%d %H:%M:%S"):
                    out.add("C13/modified-column/%s" % tz, name=nm, printed=mod, want=files[nm][1].strftime("%Y-%m-%d %H:%M:%S"),
                            epoch=files[nm][0])
        answers = {}
        for op in OPS:
            spell = OP_SPELL[op][case.get("spell", 0) % len(OP_SPELL[op])]
            toks = ["name", "from", ".", "where", "modified", spell, lit_text, "into", "list"]
            rows, argv, res = run(out, base, tz, toks, case["split"], 1, clock)
            if rows is None:
                if not res.wall_timeout:
                    out.add("C13/run-failed/%s/%s" % (label, op), argv=argv, status=res.status, stderr=res.err[:200], tz=tz)
                continue
            got = {r[0] for r in rows}
            answers[op] = got
            if op in ("===", "!=="):
                if not full:
                    continue
                want = {n for n, (e, p) in files.items() if (p == a) == (op == "===")}
            else:
                want = {n for n, (e, p) in files.items() if dates.holds(op, p, a, b)}
            if got != want:
                out.add("C13/%s/%s/%s" % (label, op, "over" if got - want else "under"), argv=argv, tz=tz,
                        interval=[str(a), str(b)], extra=sorted((n, str(files[n][1])) for n in got - want)[:4],
                        missing=sorted((n, str(files[n][1])) for n in want - got)[:4])
            if 0 < len(want) < len(files):
                nt.append("%s|%s|%s" % (tz, lit_text, op))
        # laws on fselect's own answers
        allf = set(files)
        if all(k in answers for k in ("<", "=", ">")):
            lt_, eq_, gt_ = answers["<"], answers["="], answers[">"]
            if (lt_ | eq_ | gt_) != allf or (lt_ & eq_) or (eq_ & gt_) or (lt_ & gt_):
                out.add("C13/trichotomy/%s" % label, tz=tz, literal=lit_text, lt=sorted(lt_), eq=sorted(eq_), gt=sorted(gt_))
            if "<=" in answers and answers["<="] != (lt_ | eq_):
                out.add("C13/le-is-lt-or-eq/%s" % label, tz=tz, literal=lit_text)
            if ">=" in answers and answers[">="] != (gt_ | eq_):
                out.add("C13/ge-is-gt-or-eq/%s" % label, tz=tz, literal=lit_text)
            if "!=" in answers and answers["!="] != allf - eq_:
                out.add("C13/ne-is-complement/%s" % label, tz=tz, literal=lit_text)
        # BETWEEN two day literals (only for day-precision absolute literals)
        if "rel" not in case and case["prec"] == "day":
            d2 = a.date() + datetime.timedelta(days=1)
            l2 = lang.quote("%04d-%02d-%02d" % (d2.year, d2.month, d2.day))
            toks = ["name", "from", ".", "where", "modified", "between", lit_text, "and", l2, "into", "list"]
            rows, argv, res = run(out, base, tz, toks, case["split"], 1, clock)
            if rows is None:
                if not res.wall_timeout:
                    out.add("C13/run-failed/between", argv=argv, status=res.status, stderr=res.err[:200])
            else:
                hi = datetime.datetime.combine(d2, datetime.time(23, 59, 59))
                want = {n for n, (e, p) in files.items() if a <= p <= hi}
                if {r[0] for r in rows} != want:
                    out.add("C13/between-days", argv=argv, tz=tz, got=sorted(r[0] for r in rows), want=sorted(want))
        out.classes = ["tz=" + tz, "kind=" + label] + (["split-args"] if case["split"] else []) + \
                      (["unquoted"] if "rel" not in case and not case["quoted"] else []) + \
                      (["colon-separator"] if case.get("sep") == ":" else []) + (["unpadded"] if case.get("pad") is False else [])
        out.sample = {"tz": tz, "literal": lit_text, "interval": [str(a), str(b)], "files": len(files)}
    finally:
        runner.rmtree(cdir)
    out.nt_keys = nt
    out.nontrivial = bool(nt)
    return out


def _abs(tz, ymd, prec, hms=(0, 0, 0), sep="-", pad=True, quoted=True, split=False):
    return {"tz": tz, "ymd": list(ymd), "prec": prec, "hms": list(hms), "sep": sep, "pad": pad, "quoted": quoted, "split": split, "spell": 0}


PINNED = [
    ("day-utc", _abs("UTC", (2020, 1, 15), "day", quoted=False)),
    ("leap-day-ny", _abs("America/New_York", (2020, 2, 29), "day")),
    ("dst-spring-ny", _abs("America/New_York", (2020, 3, 8), "day")),
    ("dst-fall-ny-hour", _abs("America/New_York", (2020, 11, 1), "hour", (1, 0, 0))),
    ("minute-kolkata", _abs("Asia/Kolkata", (2020, 12, 31), "minute", (23, 59, 0))),
    ("second-colon-unpadded", _abs("UTC", (2021, 1, 1), "second", (0, 0, 0), sep=":", pad=False)),
    ("today-ny", {"tz": "America/New_York", "rel": "today", "clock_day": [2020, 3, 8], "clock_hms": [12, 0, 0], "split": False}),
    ("yesterday-kolkata-midnight", {"tz": "Asia/Kolkata", "rel": "yesterday", "clock_day": [2021, 1, 1], "clock_hms": [0, 0, 0], "split": True}),
    ("minus7-utc", {"tz": "UTC", "rel": "-7", "clock_day": [2020, 3, 1], "clock_hms": [23, 59, 59], "split": False}),
    ("plus1-quoted", {"tz": "UTC", "rel": "'+1'", "clock_day": [2020, 2, 28], "clock_hms": [12, 0, 0], "split": False}),
]
