"""C14 Size literals and size formatting follow the documented unit tables (DESIGN.md 4, C14)."""
import fractions
import itertools
import math
import os
import re

from hypothesis import strategies as st

from .. import runner
from ..engine import Outcome

ID = "C14"
LEVEL = "exploration"
RULE = ("(a) literals: every unit suffix of the documented table (k kb kib m mb mib g gb gib t tb tib b, none) in every "
        "letter-case variant x numbers {1, 2, 3, 10, 1.5, 0.5, 2.25} x the six comparison operators and =, against "
        "sparse files of size floor(n*mult)-1, floor(n*mult), floor(n*mult)+1, compared with the exact rational n*mult "
        "(0.3k is 307.2 bytes: `=` matches nothing, `>=` starts at 308) - enumerated exhaustively in both tiers. "
        "(b) formatting: specifier strings from the documented grammar [%.N][space][c|d][s][unit] x sizes on a "
        "logarithmic grid 0..2^50 with +-1 neighbours, through format_size(N, spec) and through fsize with "
        "default_file_size_format in the configuration file: the 15 rows of the documentation table verbatim; unit "
        "label, spacing and number of decimals follow the grammar; rendering is monotone in the size; number x unit "
        "multiplier is within half a unit of the last displayed digit of the true size; (c) context independence: 2-4 "
        "different specifiers (relatives of each other: bare unit, bare flags, other precision, other spacing, default) "
        "in one invocation - as columns of one row and as rows over real sparse files, with fsize and a configured default - "
        "every cell equals what the same call renders in an invocation using that specifier only. Non-trivial: (a) every "
        "enumerated (literal, operator); (b) size >= 1000 and a specifier with >= 2 components; (c) >= 2 distinct specifiers.")
ASSUMPTIONS = [
    "exact last-digit rounding mode, units p/e and specifiers outside the grammar are not asserted",
    "`c` is combined with binary-named units only and `d` with decimal-named units only (the documented combinations)",
    "a value that is integral at the displayed precision may be printed without decimals (as the documentation's own '1KiB' style output)",
]
EXHAUSTIVE_NOTE = "all unit suffixes x all letter-case variants x 7 numbers x 7 operators (literals); the documentation's 15-row specifier table"

MULT = {"k": 1024, "kib": 1024, "kb": 1000, "m": 1024 ** 2, "mib": 1024 ** 2, "mb": 1000 ** 2,
        "g": 1024 ** 3, "gib": 1024 ** 3, "gb": 1000 ** 3, "t": 1024 ** 4, "tib": 1024 ** 4, "tb": 1000 ** 4,
        "b": 1, "": 1}
NUMS = ["1", "2", "3", "10", "1.5", "0.5", "2.25",
        # decimal fractions that are not exact in binary floating point but give a whole number of bytes with a decimal unit
        "2.01", "4.02", "8.03", "0.3", "1.001",
        # below zero and beyond a 64-bit integer: still numbers
        "-1", "-0.5", "9000000000",
        # fractions whose product with a large unit lies within a few thousandths of a byte of a whole number WITHOUT being
        # one (1.7509t = 1925134909072.9984 bytes): a rounding tolerance must not take them for whole
        "1.7509", "10.058", "8.308", "12.067", "64.003761", "14.0008103",
        # ... and fractions of a byte smaller than the spacing of floating-point numbers at that size (9.03107t is
        # 9929766476259.00032 bytes, 9.009411t is ...912.999936), and a whole number written with 19 decimals
        "9.03107", "9.009411", "2.0100000000000000000"]
OPS = ["=", "!=", ">", ">=", "<", "<=", "eq"]

DOC_TABLE = [
    (None, "1.60MiB"), (" ", "1.60 MiB"), ("%.0", "2MiB"), ("%.1", "1.6MiB"), ("%.2", "1.60MiB"), ("%.2 ", "1.60 MiB"),
    ("%.2 d", "1.68 MB"), ("%.2 c", "1.60 MB"), ("%.2 k", "1638.79 KiB"), ("%.2 ck", "1638.79 KB"), ("%.0 ck", "1639 KB"),
    ("%.0 kb", "1678 KB"), ("%.0kb", "1678KB"), ("%.0s", "2M"), ("%.0 s", "2 M"),
]

GRID = sorted({0, 1, 2, 999, 1000, 1001, 1023, 1024, 1025, 1500, 1536, 10239, 10240, 999999, 1000000, 1000001,
               1048575, 1048576, 1048577, 1678123, 5000000, 999999999, 1000000000, 1073741823, 1073741824, 1073741825,
               1610612736, 10 ** 12 - 1, 10 ** 12, 10 ** 12 + 1, 2 ** 40 - 1, 2 ** 40, 2 ** 40 + 1, 3 * 2 ** 40,
               10 ** 15, 2 ** 50 - 1, 2 ** 50})


def case_variants(s):
    if not s:
        return [""]
    return sorted({"".join(p) for p in itertools.product(*[(c.lower(), c.upper()) for c in s])})


def examples(tier):
    return 4200 if tier == "quick" else 56000


# ---------------------------------------------------------------- (a) literals, exhaustive

def enumerate_cases(tier):
    cases = []
    for unit in ["k", "kb", "kib", "m", "mb", "mib", "g", "gb", "gib", "t", "tb", "tib", "b", ""]:
        for spelled in case_variants(unit):
            for num in NUMS:
                if unit == "" and "." in num:
                    continue
                cases.append({"kind": "literal", "num": num, "unit": unit, "spelled": spelled})
    cases.append({"kind": "doctable"})
    for spec in ["%.1 k", "%.0 d", "s", "%.2 c", " ", "%.3 mb", "%.1 ck"]:
        cases.append({"kind": "fsize-config", "spec": spec})
    return cases


# ---------------------------------------------------------------- (b) formatting, generated

UNITS_BIN = ["k", "kib", "m", "mib", "g", "gib", "t", "tib"]
UNITS_DEC = ["kb", "mb", "gb", "tb"]


@st.composite
def spec_parts(draw):
    prec = draw(st.sampled_from([None, 0, 1, 2, 3]))
    space = draw(st.booleans())
    base = draw(st.sampled_from(["", "", "c", "d"]))
    short = draw(st.sampled_from([False, False, True]))
    if base == "c":
        unit = draw(st.sampled_from([""] * 3 + UNITS_BIN))
    elif base == "d":
        unit = draw(st.sampled_from([""] * 3 + UNITS_DEC))
    else:
        unit = draw(st.sampled_from([""] * 4 + UNITS_BIN + UNITS_DEC + ["b"]))
    flags = base + ("s" if short else "")
    if draw(st.booleans()):
        flags = flags[::-1]
    upper = draw(st.sampled_from([False, False, True]))
    return {"prec": prec, "space": space, "flags": flags, "unit": unit, "upper": upper}


FILE_GRID = [g for g in GRID if g <= 2 ** 42]


@st.composite
def mixed_(draw):
    """Several different specifiers in ONE invocation (columns of one row, and rows over real files): every cell
    must equal what the same call renders in an invocation that uses that specifier only."""
    first = draw(spec_parts())
    specs = [first]
    # relatives of the first specifier: the bare unit, the bare flags, another precision - the shapes a shared
    # per-process cache or a parsed-specifier memo would confuse
    rel = draw(st.lists(st.sampled_from(["bare-unit", "bare-flags", "other-prec", "toggle-space", "fresh", "fresh", "default"]),
                        min_size=1, max_size=3))
    for r in rel:
        if r == "bare-unit":
            specs.append(dict(first, prec=None, space=False, flags=""))
        elif r == "bare-flags":
            specs.append(dict(first, prec=None, space=False, unit=""))
        elif r == "other-prec":
            specs.append(dict(first, prec=draw(st.sampled_from([p for p in [None, 0, 1, 2, 3] if p != first["prec"]]))))
        elif r == "toggle-space":
            specs.append(dict(first, space=not first["space"]))
        elif r == "default":
            specs.append({"prec": None, "space": False, "flags": "", "unit": "", "upper": False})
        else:
            specs.append(draw(spec_parts()))
    order = draw(st.permutations(range(len(specs))))
    specs = [specs[i] for i in order]
    sizes = draw(st.lists(st.sampled_from(FILE_GRID), min_size=2, max_size=5, unique=True))
    cfg_default = draw(st.sampled_from([None, None, 0, 1]))
    if cfg_default is not None:
        cfg_default = min(cfg_default, len(specs) - 1)
    return {"kind": "mixed", "specs": specs, "sizes": sizes, "cfg_default": cfg_default,
            "fsize_pos": draw(st.sampled_from(["first", "last", "none"])), "ordered": draw(st.booleans())}


@st.composite
def strategy_(draw, tier):
    if draw(st.sampled_from(range(3))) == 0:
        return draw(mixed_())
    parts = draw(spec_parts())
    sizes = draw(st.lists(st.sampled_from(GRID), min_size=8, max_size=20, unique=True))
    extra = draw(st.lists(st.integers(0, 2 ** 50), min_size=0, max_size=4))
    return dict(parts, kind="format", sizes=sorted(set(sizes + extra)))


def strategy(tier):
    return strategy_(tier)


def spec_text(c):
    s = ""
    if c["prec"] is not None:
        s += "%%.%d" % c["prec"]
    if c["space"]:
        s += " "
    tail = c["flags"] + c["unit"]
    s += tail.upper() if c["upper"] else tail
    return s


def expected_label(c, mag):
    """Unit label for magnitude index mag (0=B, 1=K, ...)."""
    if mag == 0:
        return "B"
    letter = "KMGTPE"[mag - 1]
    if "s" in c["flags"]:
        return letter
    dec = "d" in c["flags"] or "c" in c["flags"] or c["unit"] in UNITS_DEC
    return letter + ("B" if dec else "iB")


def base_of(c):
    if "d" in c["flags"]:
        return 1000
    if "c" in c["flags"]:
        return 1024
    return 1000 if c["unit"] in UNITS_DEC else 1024


_OUT = re.compile(r"^(\d+)(?:\.(\d+))?( ?)([A-Za-z]+)$")


def fmt_call(size, spec):
    return "format_size(%d)" % size if spec in (None, "") else "format_size(%d, '%s')" % (size, spec)


def run_cells(out, base, exprs, cfg=None):
    q = "select " + ", ".join(exprs) + " into list"
    res = runner.run([q], cwd=base, cfg=cfg)
    out.evals += 1
    if res.wall_timeout:
        out.inconclusive = True
        return None, q
    if res.status != 0 or res.sig is not None or res.err:
        out.add("C14/run-failed", query=q[:300], status=res.status, stderr=res.err[:200])
        return None, q
    cells = res.out.split(b"\0")
    if cells and cells[-1] == b"":
        cells.pop()
    if len(cells) != len(exprs):
        out.add("C14/cell-count", query=q[:300], got=len(cells), want=len(exprs))
        return None, q
    return [c.decode("utf-8", "replace") for c in cells], q


def check_format(out, c, base):
    spec = spec_text(c)
    sizes = c["sizes"]
    cells = []
    for i in range(0, len(sizes), 20):
        part, q = run_cells(out, base, [fmt_call(s, spec) for s in sizes[i:i + 20]])
        if part is None:
            return
        cells += part
    b = base_of(c)
    fixed = c["unit"]
    prev = None
    for size, cell in zip(sizes, cells):
        m = _OUT.match(cell)
        tag = "C14/format"
        if not m:
            out.add(tag + "/shape", spec=spec, size=size, cell=cell)
            continue
        whole, frac, sp, label = m.group(1), m.group(2), m.group(3), m.group(4)
        labels = {expected_label(c, i): i for i in range(0, 7)}
        if label not in labels:
            out.add(tag + "/label", spec=spec, size=size, cell=cell, allowed=sorted(labels))
            continue
        mag = labels[label]
        if fixed and fixed != "b":
            want_mag = "kmgt".index(fixed[0]) + 1
            if mag != want_mag:
                out.add(tag + "/fixed-unit-not-honoured", spec=spec, size=size, cell=cell)
                continue
        if fixed == "b" and mag != 0:
            out.add(tag + "/fixed-unit-not-honoured", spec=spec, size=size, cell=cell)
            continue
        if (sp == " ") != c["space"]:
            out.add(tag + "/space", spec=spec, size=size, cell=cell)
        nd = len(frac) if frac else 0
        if c["prec"] is not None and nd not in (0, c["prec"]):
            out.add(tag + "/decimals", spec=spec, size=size, cell=cell, precision=c["prec"])
        mult = b ** mag
        val = float(whole + ("." + frac if frac else "")) * mult
        d = c["prec"] if c["prec"] is not None else nd
        tol = 0.5 * (10 ** -d) * mult * (1 + 1e-9) + 1e-6 * max(size, 1) * 1e-6
        if mag == 0:
            tol = 0.5
        if abs(val - size) > tol:
            out.add(tag + "/parse-back", spec=spec, size=size, cell=cell, parsed=val, tolerance=tol)
        elif "s" in c["flags"] and b == 1000 and mag > 0:
            # read back WITHOUT knowing the specifier, by the documented unit table: a bare K / M / G / T is a binary
            # unit there, while this text was produced on the decimal base (known finding K07)
            as_literal = float(whole + ("." + frac if frac else "")) * 1024 ** mag
            if abs(as_literal - size) > tol * (1024 ** mag) / mult:
                out.add("C14/format/short-unit-on-decimal-base-reads-back-binary", spec=spec, size=size, cell=cell,
                        read_back_as_literal=as_literal)
        if not fixed and mag > 0 and not (1 - 1e-9 <= val / mult < b * (1 + 1e-9)):
            pass  # choice of automatic unit is not asserted
        if prev is not None and val < prev[0] - 1e-9 * max(prev[0], 1):
            out.add(tag + "/not-monotone", spec=spec, smaller=[prev[1], prev[2]], larger=[size, cell])
        prev = (val, size, cell)
    comps = (c["prec"] is not None) + c["space"] + bool(c["flags"]) + bool(c["unit"])
    nt = [s for s in sizes if s >= 1000]
    if comps >= 2 and nt:
        out.nt_keys = ["%s|%d" % (spec, s) for s in nt]
    out.classes += ["format", "components=%d" % comps] + (["fixed-unit"] if fixed else []) + \
                   (["flag-" + f for f in c["flags"]])
    out.sample = {"spec": spec, "sizes": sizes[:5], "cells": cells[:5]}


def check_mixed(out, c, base):
    """Context independence of the rendering: reference = one invocation per specifier (that specifier only)."""
    specs = [spec_text(x) for x in c["specs"]]
    sizes = c["sizes"]
    ref = {}
    for sp in sorted(set(specs)):
        cells, _ = run_cells(out, base, [fmt_call(s, sp) for s in sizes])
        if cells is None:
            return
        for s, cell in zip(sizes, cells):
            ref[(sp, s)] = cell
    # (1) literal sizes, all specifiers interleaved in one row
    exprs, keys = [], []
    for s in sizes:
        for sp in specs:
            exprs.append(fmt_call(s, sp))
            keys.append((sp, s))
    cells, q = run_cells(out, base, exprs)
    if cells is None:
        return
    for k, cell in zip(keys, cells):
        if cell != ref[k]:
            out.add("C14/context/columns", query=q[:400], spec=k[0], size=k[1], cell=cell, alone=ref[k])
            break
    # (2) rows over real files, with fsize (configuration default) next to the explicit specifiers
    os.remove(os.path.join(base, "one"))
    for i, s in enumerate(sizes):
        with open(os.path.join(base, "f%d" % i), "wb") as f:
            f.truncate(s)
    cfg = None
    dflt = None
    if c["cfg_default"] is not None:
        dflt = specs[c["cfg_default"]]
        cfg = 'default_file_size_format = "%s"\n' % dflt
    if dflt not in specs:
        cells, _ = run_cells(out, base, [fmt_call(s, dflt) for s in sizes])
        if cells is None:
            return
        for s, cell in zip(sizes, cells):
            ref[(dflt, s)] = cell
    cols = ["size"] + ["format_size(size, '%s')" % sp if sp else "format_size(size)" for sp in specs]
    colspec = [None] + specs
    if c["fsize_pos"] == "first":
        cols.insert(1, "fsize")
        colspec.insert(1, dflt)
    elif c["fsize_pos"] == "last":
        cols.append("fsize")
        colspec.append(dflt)
    q = "select " + ", ".join(cols) + " from ." + (" order by name" if c["ordered"] else "") + " into list"
    res = runner.run([q], cwd=base, cfg=cfg)
    out.evals += 1
    if res.wall_timeout:
        out.inconclusive = True
        return
    if res.status != 0 or res.err:
        out.add("C14/context/run-failed", query=q[:400], status=res.status, stderr=res.err[:200])
        return
    rows = runner.rows(res.out, len(cols))
    if len(rows) != len(sizes):
        out.add("C14/context/row-count", query=q[:400], rows=len(rows), files=len(sizes))
        return
    for r in rows:
        sz = int(r[0])
        for sp, cell in list(zip(colspec, r))[1:]:
            if cell != ref[(sp, sz)]:
                out.add("C14/context/rows", query=q[:400], config=cfg, spec=sp, size=sz, cell=cell, alone=ref[(sp, sz)])
                return
    out.nt_keys = ["mixed|%s|%s" % ("~".join(str(x) for x in specs), c["cfg_default"])] if len(set(specs)) >= 2 else []
    out.classes += ["mixed", "specs=%d" % len(set(specs))] + (["mixed-config-default"] if cfg else []) + \
                   (["mixed-fsize"] if c["fsize_pos"] != "none" else [])
    out.sample = {"query": q[:200], "config": cfg, "rows": rows[:2]}


def check_literal(out, c, base):
    mult = MULT[c["unit"]]
    exact = fractions.Fraction(c["num"]) * mult        # the byte count the literal denotes, as an exact rational
    n = int(math.floor(exact))
    lit = c["num"] + c["spelled"]
    files = {"lo": n - 1, "eq": n, "hi": n + 1}
    if n < 0 or n > 15 * 2 ** 40:         # (ext4 holds files up to 16 TiB)
        files = {"lo": 0, "eq": 1, "hi": 4096}       # every file is above (below) such a literal
    for nm, sz in files.items():
        if sz < 0:
            continue
        with open(os.path.join(base, nm), "wb") as f:
            f.truncate(sz)
    keys = []
    for op in OPS:
        q = "name from . where size %s %s into list" % (op, lit)
        res = runner.run([q], cwd=base)
        out.evals += 1
        if res.wall_timeout:
            out.inconclusive = True
            continue
        if res.status != 0 or res.err:
            out.add("C14/literal/run-failed", query=q, status=res.status, stderr=res.err[:200])
            continue
        got = {r[0] for r in runner.rows(res.out, 1)}
        # `size OP literal` is the numeric comparison with that byte count - also when it is no whole number (0.3k = 307.2)
        cmpf = {"=": lambda x: x == exact, "eq": lambda x: x == exact, "!=": lambda x: x != exact, ">": lambda x: x > exact,
                ">=": lambda x: x >= exact, "<": lambda x: x < exact, "<=": lambda x: x <= exact}[op]
        want = {nm for nm, sz in files.items() if sz >= 0 and cmpf(sz)}
        if got != want:
            out.add("C14/literal/%s/%s" % (c["unit"] or "none", "fraction" if "." in c["num"] else "integer"),
                    query=q, bytes=str(exact) if exact.denominator != 1 else n, got=sorted(got), want=sorted(want))
        keys.append("%s %s" % (op, lit))
    out.nt_keys = keys
    out.classes += ["literal", "unit=" + (c["unit"] or "none")] + (["fraction"] if "." in c["num"] else []) + \
                   (["mixed-case"] if c["spelled"] != c["unit"] else [])
    out.sample = {"literal": lit, "bytes": n}


def check(case):
    out = Outcome()
    cdir = runner.new_case_dir()
    base = os.path.join(cdir, "t")
    os.mkdir(base)
    try:
        open(os.path.join(base, "one"), "w").close()
        k = case["kind"]
        if k == "literal":
            os.remove(os.path.join(base, "one"))
            check_literal(out, case, base)
        elif k == "format":
            check_format(out, case, base)
        elif k == "mixed":
            check_mixed(out, case, base)
        elif k == "doctable":
            cells, q = run_cells(out, base, [fmt_call(1678123, s) for s, _ in DOC_TABLE])
            if cells:
                for (spec, want), cell in zip(DOC_TABLE, cells):
                    if cell != want:
                        out.add("C14/doc-table", spec=spec, cell=cell, documented=want)
                out.nt_keys = ["doc|%s" % s for s, _ in DOC_TABLE]
                out.classes.append("doc-table")
                out.sample = {"doc_table_cells": cells}
        else:
            spec = case["spec"]
            sizes = [0, 999, 1024, 1678123, 5 * 2 ** 30 + 7, 3 * 2 ** 40]
            for i, s in enumerate(sizes):
                with open(os.path.join(base, "f%d" % i), "wb") as f:
                    f.truncate(s)
            cfg = 'default_file_size_format = "%s"\n' % spec
            q = "select size, fsize, format_size(size, '%s') from . where name != 'one' into list" % spec
            res = runner.run([q], cwd=base, cfg=cfg)
            out.evals += 1
            if res.status != 0 or res.err:
                out.add("C14/fsize/run-failed", query=q, status=res.status, stderr=res.err[:200])
            else:
                rows = runner.rows(res.out, 3)
                for sz, fs, ff in rows:
                    if fs != ff:
                        out.add("C14/fsize-differs-from-format_size", spec=spec, size=sz, fsize=fs, format_size=ff)
                out.nt_keys = ["fsize|%s|%s" % (spec, r[0]) for r in rows]
                out.classes.append("fsize-config")
                out.sample = {"config": cfg.strip(), "rows": rows[:3]}
    finally:
        runner.rmtree(cdir)
    out.nontrivial = bool(out.nt_keys)
    return out


PINNED = [
    ("t-units", {"kind": "literal", "num": "1", "unit": "t", "spelled": "t"}),
    ("tb-units", {"kind": "literal", "num": "2", "unit": "tb", "spelled": "TB"}),
    ("tib-fraction", {"kind": "literal", "num": "1.5", "unit": "tib", "spelled": "TiB"}),
    ("kb-fraction", {"kind": "literal", "num": "0.5", "unit": "kb", "spelled": "kB"}),
]
