"""C04 Column values equal what the operating system and the file content say (DESIGN.md 4, C04)."""
import grp
import hashlib
import os
import pwd
import stat
import struct
import subprocess
import tomllib

from hypothesis import strategies as st

from .. import lang, model, runner, trees
from ..engine import Outcome

ID = "C04"
LEVEL = "exploration"
RULE = ("(a) exhaustive: 4096 regular files, one per permission value 0..07777, plus one entry of every creatable type, "
        "and 7 x 4096 zip members (every type x every permission) - mode string == stat.filemode, every permission / "
        "suid / sgid boolean == its bit, exactly one type boolean true and matching the mode's first character. "
        "(b) generated metadata trees: owners incl. ids without a name, hard links, xattrs, each of the 41 capabilities (xattr revision 2 and the namespaced revision 3) "
        "x {p,i,ip} x {e,-} as raw vfs_cap_data (cross-checked with getcap), dot-files, multi-dot and upper-case "
        "extensions, empty/non-empty directories, dangling links; every selected column against os.lstat / pwd / grp / "
        "listxattr and the decomposition laws (path == dir/name, abspath == absdir/name, ext); extension classes "
        "against the default lists fselect writes to its fresh config file or a generated config.toml overriding one "
        "list. (c) generated contents (empty, no trailing newline, only newlines, binary, sizes around 1/2/8/32/64 KiB "
        "and 1 MiB, #! prefixes): sha1/sha256/sha512/sha3 == hashlib, line_count == count of 0x0A, is_shebang, "
        "contains(s). Non-trivial: (a) every enumerated value; (b)/(c) >= 3 entry kinds, content > 32 KiB or an "
        "overridden extension list.")
ASSUMPTIONS = [
    "user/group text for ids without a passwd/group entry, created/accessed/device, mime/is_text/is_binary and metadata under `symlinks` are not asserted",
    "abspath of a symbolic link (it is resolved through the link) is not asserted",
    "FIFOs are absent from trees whose query opens files (open() on a FIFO blocks)",
]
EXHAUSTIVE_NOTE = "all 4096 permission values on disk and as zip-entry modes for all 7 file types; all 41 capabilities x 6 flag combinations"

PERM_COLS = ["user_read", "user_write", "user_exec", "group_read", "group_write", "group_exec", "other_read",
             "other_write", "other_exec", "user_all", "group_all", "other_all", "suid", "sgid"]
TYPE_COLS = ["is_file", "is_dir", "is_symlink", "is_pipe", "is_char", "is_block", "is_socket"]
TYPE_CHAR = {"is_file": "-", "is_dir": "d", "is_symlink": "l", "is_pipe": "p", "is_char": "c", "is_block": "b", "is_socket": "s"}
BITS = {"user_read": 0o400, "user_write": 0o200, "user_exec": 0o100, "group_read": 0o40, "group_write": 0o20,
        "group_exec": 0o10, "other_read": 0o4, "other_write": 0o2, "other_exec": 0o1, "suid": 0o4000, "sgid": 0o2000}
ALLS = {"user_all": 0o700, "group_all": 0o70, "other_all": 0o7}
IFMTS = {"-": stat.S_IFREG, "d": stat.S_IFDIR, "l": stat.S_IFLNK, "p": stat.S_IFIFO, "c": stat.S_IFCHR, "b": stat.S_IFBLK, "s": stat.S_IFSOCK}

CAPS = ["cap_chown", "cap_dac_override", "cap_dac_read_search", "cap_fowner", "cap_fsetid", "cap_kill", "cap_setgid",
        "cap_setuid", "cap_setpcap", "cap_linux_immutable", "cap_net_bind_service", "cap_net_broadcast", "cap_net_admin",
        "cap_net_raw", "cap_ipc_lock", "cap_ipc_owner", "cap_sys_module", "cap_sys_rawio", "cap_sys_chroot", "cap_sys_ptrace",
        "cap_sys_pacct", "cap_sys_admin", "cap_sys_boot", "cap_sys_nice", "cap_sys_resource", "cap_sys_time",
        "cap_sys_tty_config", "cap_mknod", "cap_lease", "cap_audit_write", "cap_audit_control", "cap_setfcap",
        "cap_mac_override", "cap_mac_admin", "cap_syslog", "cap_wake_alarm", "cap_block_suspend", "cap_audit_read",
        "cap_perfmon", "cap_bpf", "cap_checkpoint_restore"]
CLASSES = ["is_archive", "is_audio", "is_book", "is_doc", "is_font", "is_image", "is_source", "is_video"]


def examples(tier):
    return 4200 if tier == "quick" else 60000


def cap_blob(bits, flags, eff, rev=2):
    """raw vfs_cap_data: bits = list of capability numbers, flags in {'p','i','ip'}; revision 1 (one 32-bit pair),
    2 (two pairs) or 3 (two pairs + the root id of a user namespace, as `setcap -n` writes)."""
    perm = [0, 0]
    inh = [0, 0]
    for b in bits:
        if "p" in flags:
            perm[b // 32] |= 1 << (b % 32)
        if "i" in flags:
            inh[b // 32] |= 1 << (b % 32)
    magic = (rev << 24) | (1 if eff else 0)
    if rev == 1:
        return struct.pack("<III", magic, perm[0], inh[0])
    raw = struct.pack("<IIIII", magic, perm[0], inh[0], perm[1], inh[1])
    return raw + struct.pack("<I", 1000) if rev == 3 else raw


def caps_text(bits, flags, eff):
    return " ".join("%s=%s%s" % (CAPS[b], "e" if eff else "", "ip" if flags == "ip" else flags) for b in sorted(bits))


# ---------------------------------------------------------------- enumerated cases

def enumerate_cases(tier):
    cases = [{"kind": "perm-disk"}]
    for ch in "-dlpcbs":
        cases.append({"kind": "perm-zip", "type": ch})
    for lo in range(0, 41, 6):
        cases.append({"kind": "caps", "caps": list(range(lo, min(41, lo + 6)))})
    cases.append({"kind": "default-lists"})
    cases.append({"kind": "xattr-own"})
    # every extension list overridden in turn (and the defaults) on one tree holding all META_NAMES
    tree = {n: {"t": "f", "c": ""} for n in META_NAMES}
    cases.append({"kind": "meta", "tree": tree, "override": None, "root": "."})
    for cls in CLASSES:
        for exts in ([".zz", ".tar.gz", ".UP"], [".up", "rs", "."], []):
            cases.append({"kind": "meta", "tree": tree, "override": {"cls": cls, "exts": exts}, "root": "./"})
    return cases


# ---------------------------------------------------------------- generated cases

META_NAMES = ["a", "b.txt", "c.TXT", "d.tar.gz", ".hidden", ".cfg.toml", "README", "x.ZIP", "song.Mp3", "doc.pdf", "f.woff2",
              "img.jpeg", "main.rs", "v.mkv", "book.epub", "noext.", "two..dots", "UP.RS", "é.png", "s p.c", "arch.7z", "q.zz",
              "w.tar.gz", "k.up", ".zip", ".c", ".MP3", ".zz", ".tar.gz"]   # incl. names that ARE an extension
BIG = [32767, 32768, 32769, 65535, 65536, 65537, 1048576, 8191, 8192, 8193]


@st.composite
def meta_case(draw):
    n = draw(st.sampled_from([3, 5, 8, 12]))
    names = draw(st.lists(st.sampled_from(META_NAMES), min_size=n, max_size=n, unique=True))
    tree = {}
    for nm in names:
        k = draw(st.sampled_from(["f", "f", "f", "d", "de", "l", "ld", "h", "s"]))
        if k == "f":
            node = {"t": "f", "c": draw(st.sampled_from(["", "x", "abc\n", "y" * 700])),
                    "mode": draw(st.sampled_from([0o644, 0o600, 0o755, 0o4711, 0o2755, 0o1666, 0o000, 0o7777])),
                    "mtime": draw(st.sampled_from([1577836800, 951782400, 1709208000, 1, 2147483647]))}
            if draw(st.booleans()):
                node["uid"] = draw(st.sampled_from([0, 1, 1000, 65534, 4242]))
                node["gid"] = draw(st.sampled_from([0, 1, 100, 65534, 4343]))
            if draw(st.sampled_from(range(3))) == 0:
                node["xattrs"] = {"user." + draw(st.sampled_from(["test", "k", "a.b"])): draw(st.sampled_from(["v", "", "héllo", "x" * 100]))}
            if draw(st.sampled_from(range(4))) == 0:
                bits = draw(st.lists(st.sampled_from(range(41)), min_size=1, max_size=3, unique=True))
                node["caps"] = cap_blob(bits, draw(st.sampled_from(["p", "i", "ip"])), draw(st.booleans())).hex()
            tree[nm] = node
        elif k == "d":
            tree[nm] = {"t": "d", "ch": {"in": {"t": "f", "c": "1"}}, "mode": draw(st.sampled_from([0o755, 0o700, 0o2775, 0o1777]))}
        elif k == "de":
            tree[nm] = {"t": "d", "ch": {}}
        elif k == "l":
            tree[nm] = {"t": "l", "to": draw(st.sampled_from(names))}
        elif k == "ld":
            tree[nm] = {"t": "l", "to": "no-such-target"}
        elif k == "s":
            tree[nm] = {"t": "s"}
        else:
            tree[nm] = {"t": "f", "c": "hl"}
            tree["hl-" + nm] = {"t": "h", "to": nm}
    override = None
    if draw(st.sampled_from(range(3))) == 0:
        cls = draw(st.sampled_from(CLASSES + ["is_zip_archive"]))
        exts = draw(st.lists(st.sampled_from([".zz", ".tar.gz", ".UP", ".up", ".txt", ".c", "rs", ".", ".png", ".mp3", "gz"]),
                             min_size=0, max_size=4, unique=True))
        override = {"cls": cls, "exts": exts}
    follow = draw(st.sampled_from([False, False, True]))
    if follow:
        # with `symlinks` the walk follows links to directories; keep the row set equal to the plain walk by
        # re-targeting such links (links to files and dangling links stay): the metadata of a link entry itself is
        # still the link's own (lstat) in both modes
        for nm, node in tree.items():
            if node["t"] == "l" and tree.get(node["to"], {}).get("t") == "d":
                node["to"] = "no-such-target"
    return {"kind": "meta", "tree": tree, "override": override, "root": draw(st.sampled_from([".", "./", "abs"])), "symlinks": follow}


@st.composite
def content_case(draw):
    files = {}
    for i in range(draw(st.sampled_from([1, 2, 4]))):
        k = draw(st.sampled_from(["small", "small", "text", "big", "big", "shebang", "binary", "newlines"]))
        if k == "small":
            node = {"t": "f", "c": draw(st.sampled_from(["", "a", "no newline", "one\n", "two\nlines\n", "\n", "#", "!#x", "#!", "# !x", "é\nü"]))}
        elif k == "text":
            word = draw(st.sampled_from(["needle", "héllo", "a b", "XyZ"]))
            pad = draw(st.sampled_from([0, 10, 32760, 32765, 65530]))
            node = {"t": "f", "c": "p" * pad + word + "\n" + "q" * draw(st.sampled_from([0, 5, 40000])), "word": word}
        elif k == "big":
            n = draw(st.sampled_from(BIG)) + draw(st.sampled_from([-1, 0, 1]))
            unit = draw(st.sampled_from(["61", "0a", "610a", "00ff", "c3a9"]))
            ulen = len(unit) // 2
            node = {"t": "f", "rep": [unit, n // ulen, "62" * (n % ulen)]}
        elif k == "shebang":
            node = {"t": "f", "c": draw(st.sampled_from(["#!/bin/sh\necho\n", "#!", "#!x", " #!/bin/sh", "#\n!", "!#/bin/sh"]))}
        elif k == "binary":
            node = {"t": "f", "hex": draw(st.sampled_from(["00", "ff00fe0a0a", "2321000a", "0a" * 7, "80" * 33]))}
        else:
            node = {"t": "f", "c": "\n" * draw(st.sampled_from([1, 2, 100, 32768, 32769]))}
        files["f%d.dat" % i] = node
    # needles that span a line end, and the empty needle (which every readable text contains, an empty file too)
    needles = draw(st.lists(st.sampled_from(["needle", "héllo", "a b", "XyZ", "absent", "p", "q", "lines", "#!",
                                             "two\nlines", "o\nl", "\n", "e\n", "\n\n", "é\nü", ""]), min_size=1, max_size=3, unique=True))
    return {"kind": "content", "tree": files, "needles": needles}


def strategy(tier):
    return st.sampled_from([0, 0, 1]).flatmap(lambda k: meta_case() if k == 0 else content_case())


# ---------------------------------------------------------------- checks

def run(out, base, q, ncols, cfg=None, tag="C04"):
    res = runner.run([q], cwd=base, cfg=cfg)
    out.evals += 1
    if res.wall_timeout:
        out.inconclusive = True
        return None
    if res.status != 0 or res.sig is not None or res.err:
        out.add(tag + "/run-failed", query=q[:300], status=res.status, signal=res.sig, stderr=res.err[:300])
        return None
    try:
        return runner.rows(res.out, ncols)
    except ValueError as e:
        out.add(tag + "/list-malformed", query=q[:300], err=str(e))
        return None


def judge_mode_row(out, tag, ident, mode_int, cells, cols):
    """cells: dict col -> text for 'mode' + PERM_COLS + TYPE_COLS."""
    want_mode = stat.filemode(mode_int)
    if cells["mode"] != want_mode:
        out.add(tag + "/mode-string", entry=ident, mode=oct(mode_int), printed=cells["mode"], want=want_mode)
    for c, bit in BITS.items():
        if cells[c] != model.b(mode_int & bit != 0):
            out.add(tag + "/bit/" + c, entry=ident, mode=oct(mode_int), printed=cells[c])
    for c, m in ALLS.items():
        if cells[c] != model.b(mode_int & m == m):
            out.add(tag + "/bit/" + c, entry=ident, mode=oct(mode_int), printed=cells[c])
    trues = [c for c in TYPE_COLS if cells[c] == "true"]
    want_type = [c for c, ch in TYPE_CHAR.items() if IFMTS[ch] == stat.S_IFMT(mode_int)]
    if trues != want_type:
        out.add(tag + "/type-booleans/" + (want_type[0] if want_type else "?"), entry=ident, mode=oct(mode_int),
                true_columns=trues, want=want_type)


def check_perm_disk(out, base):
    d = os.path.join(base, "p")
    os.mkdir(d)
    for m in range(4096):
        p = os.path.join(d, "m%04o" % m)
        open(p, "w").close()
        os.chmod(p, m)
    spec = {"sub": {"t": "d", "ch": {}}, "ln": {"t": "l", "to": "sub"}, "dangling": {"t": "l", "to": "nope"}, "fifo": {"t": "p"},
            "sock": {"t": "s"}, "chr": {"t": "c"}, "blk": {"t": "b"}, "reg": {"t": "f", "c": ""}}
    t = os.path.join(base, "types")
    os.mkdir(t)
    made = {}
    for nm, node in spec.items():
        try:
            trees.materialize(t, {nm: node})
            made[nm] = node
        except OSError:
            out.classes.append("kernel-refused-" + node["t"])
    cols = ["mode"] + PERM_COLS + TYPE_COLS
    rows = run(out, base, "select path, " + ", ".join(cols) + " from . into list", 1 + len(cols), tag="C04/perm-disk")
    if rows is None:
        return
    seen = 0
    keys = []
    for r in rows:
        p = r[0]
        st_ = os.lstat(os.path.join(base, p))
        cells = dict(zip(cols, r[1:]))
        judge_mode_row(out, "C04/perm-disk", p, st_.st_mode, cells, cols)
        seen += 1
        keys.append("disk|%o" % st_.st_mode)
    if seen != 4096 + len(made) + 2:
        out.add("C04/perm-disk/row-count", rows=seen, want=4096 + len(made) + 2)
    out.nt_keys = keys
    out.classes.append("perm-disk")
    out.sample = {"kind": "perm-disk", "rows": seen, "types": sorted(made)}


def check_perm_zip(out, base, ch):
    import zipfile
    ifmt = IFMTS[ch]
    zp = os.path.join(base, "all.zip")
    with zipfile.ZipFile(zp, "w") as zf:
        for m in range(4096):
            name = "e%04o%s" % (m, "/" if ch == "d" else "")
            zi = zipfile.ZipInfo(name, date_time=(2020, 1, 2, 3, 4, 6))
            zi.create_system = 3
            zi.external_attr = ((ifmt | m) & 0xFFFF) << 16
            zf.writestr(zi, b"")
    cols = ["mode"] + PERM_COLS + TYPE_COLS
    rows = run(out, base, "select name, " + ", ".join(cols) + " from . archives where name like '[%' into list", 1 + len(cols),
               tag="C04/perm-zip")
    if rows is None:
        return
    keys = []
    for r in rows:
        nm = r[0].split("] ", 1)[1].rstrip("/")
        m = int(nm[1:], 8)
        judge_mode_row(out, "C04/perm-zip/" + ch, r[0], ifmt | m, dict(zip(cols, r[1:])), cols)
        keys.append("zip|%o" % (ifmt | m))
    if len(rows) != 4096:
        out.add("C04/perm-zip/row-count", type=ch, rows=len(rows))
    out.nt_keys = keys
    out.classes.append("perm-zip-" + ch)
    out.sample = {"kind": "perm-zip", "type": ch, "rows": len(rows)}


def check_xattr_own(out, base):
    """Extended attributes and capabilities are the entry's OWN (as lstat / l*xattr give them): a link does not show
    its target's, a pipe is not opened, an unreadable file still has them."""
    f = os.path.join(base, "withx")
    open(f, "w").close()
    os.setxattr(f, "user.test", b"v")
    c = os.path.join(base, "capfile")
    open(c, "w").close()
    os.setxattr(c, "security.capability", cap_blob([13], "p", True))
    os.symlink("withx", os.path.join(base, "l_withx"))
    os.symlink("capfile", os.path.join(base, "l_cap"))
    os.symlink("nowhere", os.path.join(base, "l_dangling"))
    os.mkfifo(os.path.join(base, "pipe"))
    u = os.path.join(base, "unreadable")
    open(u, "w").close()
    os.setxattr(u, "user.test", b"v")
    os.chmod(u, 0)
    os.chmod(base, 0o755)
    cols = ["name", "has_xattrs", "caps", "has_caps()", "has_xattr(user.test)", "xattr(user.test)"]
    q = "select " + ", ".join(cols) + " from . into list"
    want = {"withx": ("true", "", "false", "true", "v"), "capfile": ("true", caps_text([13], "p", True), "true", "false", ""),
            "l_withx": ("false", "", "false", "false", ""), "l_cap": ("false", "", "false", "false", ""),
            "l_dangling": ("false", "", "false", "false", ""), "pipe": ("false", "", "false", "false", ""),
            "unreadable": ("true", "", "false", "true", "v")}
    for nobody in (False, True):
        res = runner.run([q], cwd=base, nobody=nobody, wall=10)
        out.evals += 1
        if res.wall_timeout:
            out.add("C04/xattr/blocks", query=q, note="the query did not end within 10 s (a pipe in the tree is opened)")
            return
        if res.status not in (0, 1):
            out.add("C04/xattr/run-failed", status=res.status, stderr=res.err[:200])
            return
        for r in runner.rows(res.out, len(cols)):
            w = want.get(r[0])
            if w is None:
                continue
            # an empty cell is accepted where the value is false / empty anyway
            norm = lambda t: tuple("false" if (x == "" and i in (0, 2, 3)) else x for i, x in enumerate(t))
            got_t, want_t = norm(r[1:]), norm(w)
            if nobody and r[0] == "unreadable":
                got_t, want_t = got_t[:3], want_t[:3]     # the VALUE of a user.* attribute needs read permission (xattr(7))
            if got_t != want_t:
                out.add("C04/xattr/not-the-entry's-own/%s" % ("unprivileged" if nobody else "root"), entry=r[0], printed=list(r[1:]), want=list(w))
    out.nt_keys = ["xattr-own|" + n for n in want]
    out.classes.append("xattr-own")
    out.sample = {"kind": "xattr-own", "query": q}


def check_caps(out, base, capnums):
    expect = {}
    for b in capnums:
        for flags in ("p", "i", "ip"):
            for eff in (False, True):
                # every on-disk revision the kernel hands back: 2 (plain setcap), 3 (namespaced), 1 (legacy, caps < 32)
                for rev in (2, 3, 1):
                    if rev == 1 and b >= 32:
                        continue
                    nm = "c%02d_%s_%s%s" % (b, flags, "e" if eff else "n", "" if rev == 2 else "_r%d" % rev)
                    p = os.path.join(base, nm)
                    open(p, "w").close()
                    try:
                        os.setxattr(p, "security.capability", cap_blob([b], flags, eff, rev))
                    except OSError:
                        os.remove(p)      # this kernel / file system refuses the revision: not generated
                        continue
                    if os.getxattr(p, "security.capability")[3] != rev:
                        os.remove(p)      # the kernel converted the revision on the way back
                        continue
                    expect[nm] = (b, flags, eff)
                    if rev != 2:
                        out.classes.append("cap-revision-%d" % rev)
    probe = CAPS[capnums[0]]
    other = CAPS[(capnums[0] + 7) % 41]
    rows = run(out, base, "select name, caps, has_caps(), has_cap('%s'), has_cap('%s'), has_xattrs from . into list" % (probe, other), 6,
               tag="C04/caps")
    if rows is None:
        return
    keys = []
    for nm, caps, hascaps, hasprobe, hasother, hasx in rows:
        b, flags, eff = expect[nm]
        want = caps_text([b], flags, eff)
        if caps != want:
            out.add("C04/caps/text", entry=nm, printed=caps, want=want)
        if hascaps != "true":
            out.add("C04/caps/has_caps", entry=nm, printed=hascaps)
        if hasprobe != model.b(CAPS[b] == probe) or hasother != model.b(CAPS[b] == other):
            out.add("C04/caps/has_cap", entry=nm, printed=[hasprobe, hasother])
        if hasx != "true":
            out.add("C04/caps/has_xattrs", entry=nm, printed=hasx)
        keys.append("cap|" + nm)
    # independent cross-check of the harness' own encoding with getcap (one file per capability)
    for b in capnums:
        nm = "c%02d_p_e" % b
        try:
            o = subprocess.run(["getcap", os.path.join(base, nm)], stdout=subprocess.PIPE).stdout.decode()
            if o.strip() and CAPS[b] not in o:
                out.add("C04/caps/harness-encoding-disagrees-with-getcap", entry=nm, getcap=o.strip())
        except OSError:
            pass
    if len(rows) != len(expect):
        out.add("C04/caps/row-count", rows=len(rows), want=len(expect))
    out.nt_keys = keys
    out.classes.append("caps-enumeration")
    out.sample = {"kind": "caps", "capabilities": [CAPS[b] for b in capnums]}


_defaults = {}


def default_lists():
    """The default extension lists as fselect itself writes them into a fresh configuration file."""
    if "v" not in _defaults:
        d = runner.new_case_dir()
        res = subprocess.run([runner.BINARY, "name", "from", d, "limit", "1"], cwd=d, stdout=subprocess.PIPE, stderr=subprocess.PIPE,
                             env={"HOME": d, "XDG_CONFIG_HOME": os.path.join(d, "cfg"), "PATH": "/usr/bin:/bin", "NO_COLOR": "1"})
        with open(os.path.join(d, "cfg", "fselect", "config.toml"), "rb") as f:
            _defaults["v"] = tomllib.load(f)
        runner.rmtree(d)
    return _defaults["v"]


def ascii_lower(s):
    return "".join(c.lower() if c.isascii() else c for c in s)


def check_meta(out, case, base):
    trees.materialize(base, case["tree"])
    cfg = None
    lists = {c: list(default_lists()[c]) for c in CLASSES}
    if case["override"]:
        o = case["override"]
        cfg = "%s = [%s]\n" % (o["cls"], ", ".join('"%s"' % e for e in o["exts"]))
        if o["cls"] in lists:
            lists[o["cls"]] = o["exts"]
    root = {".": ".", "./": "./", "abs": base}[case["root"]]
    cols = ["name", "path", "dir", "ext", "abspath", "absdir", "size", "uid", "gid", "user", "group", "inode", "hardlinks",
            "blocks", "modified", "mode", "is_hidden", "is_empty", "has_xattrs", "caps", "has_caps()", "has_xattr(user.test)",
            "xattr(user.test)"] + CLASSES
    opt = " symlinks" if case.get("symlinks") else ""
    rows = run(out, base, "select " + ", ".join(cols) + " from " + root + opt + " into list", len(cols), cfg=cfg, tag="C04/meta")
    if rows is None:
        return
    if cfg is not None:
        # the same configuration handed over with --config (a path with upper-case letters) must give the same table
        cdir2 = os.path.join(os.path.dirname(base), "CfgDir")
        os.makedirs(cdir2, exist_ok=True)
        with open(os.path.join(cdir2, "My.toml"), "w") as f:
            f.write(cfg)
        res = runner.run(["--config", os.path.join(cdir2, "My.toml"), "select " + ", ".join(cols) + " from " + root + opt + " into list"],
                         cwd=base, cfg=None)
        out.evals += 1
        if res.status != 0 or res.err:
            out.add("C04/meta/--config/run-failed", status=res.status, stderr=res.err[:200])
        else:
            rows2 = runner.rows(res.out, len(cols))
            if sorted(rows2) != sorted(rows):
                diff = [c for c in range(len(cols)) if any(a[c] != b[c] for a, b in zip(sorted(rows), sorted(rows2)))]
                out.add("C04/meta/--config/differs-from-default-location", columns=[cols[c] for c in diff][:6])
        out.classes.append("config-by-switch")
    ents = {e.path: e for e in model.observe(base, root)}
    got = {}
    for r in rows:
        got[r[1]] = dict(zip(cols, r))
    if set(got) != set(ents):
        out.add("C04/meta/rows", missing=sorted(set(ents) - set(got))[:5], extra=sorted(set(got) - set(ents))[:5])
        return
    real_base = os.path.realpath(base)
    kinds = set()
    for p, e in ents.items():
        c = got[p]
        st_ = e.st
        kinds.add(e.kind)

        def bad(col, want):
            if c[col] != want:
                out.add("C04/meta/" + col, entry=p, kind=e.kind, printed=c[col], want=want)
        bad("name", e.name)
        bad("size", str(st_.st_size))
        bad("uid", str(st_.st_uid))
        bad("gid", str(st_.st_gid))
        bad("inode", str(st_.st_ino))
        bad("hardlinks", str(st_.st_nlink))
        bad("blocks", str(st_.st_blocks))
        bad("modified", model.fmt_dt(int(st_.st_mtime), "UTC"))
        bad("mode", stat.filemode(st_.st_mode))
        bad("is_hidden", model.b(e.name.startswith(".")))
        try:
            bad("user", pwd.getpwuid(st_.st_uid).pw_name)
        except KeyError:
            pass
        try:
            bad("group", grp.getgrgid(st_.st_gid).gr_name)
        except KeyError:
            pass
        if e.kind == "d":
            bad("is_empty", model.b(len(os.listdir(e.abspath)) == 0))
        else:
            bad("is_empty", model.b(st_.st_size == 0))
        # decomposition laws
        if c["path"] != (c["dir"].rstrip("/") + "/" + c["name"] if c["dir"] != "/" else "/" + c["name"]):
            out.add("C04/meta/path-is-dir-slash-name", entry=p, dir=c["dir"], name=c["name"])
        ext = c["ext"]
        if ext != model.rust_extension(e.name):
            out.add("C04/meta/ext", entry=p, printed=ext, want=model.rust_extension(e.name))
        if ext and not c["name"].endswith("." + ext):
            out.add("C04/meta/name-ends-with-ext", entry=p, ext=ext)
        parent_real = os.path.realpath(os.path.dirname(e.abspath))
        bad("absdir", parent_real)
        if e.kind != "l":
            bad("abspath", os.path.join(parent_real, e.name))
        # xattrs / capabilities (regular files and directories; mode 000 is still readable for root)
        if e.kind in ("f", "d"):
            names = os.listxattr(e.abspath)
            bad("has_xattrs", model.b(len(names) > 0))
            has_cap = "security.capability" in names
            bad("has_caps()", model.b(has_cap))
            bad("has_xattr(user.test)", model.b("user.test" in names))
            if "user.test" in names:
                bad("xattr(user.test)", os.getxattr(e.abspath, "user.test").decode("utf-8"))
            else:
                bad("xattr(user.test)", "")
            if has_cap:
                raw = os.getxattr(e.abspath, "security.capability")
                magic, p0, i0, p1, i1 = struct.unpack("<IIIII", raw)
                parts = []
                for b in range(41):
                    pw, iw = (p0, i0) if b < 32 else (p1, i1)
                    pb, ib = pw >> (b % 32) & 1, iw >> (b % 32) & 1
                    if pb or ib:
                        parts.append("%s=%s%s" % (CAPS[b], "e" if magic & 1 else "", "ip" if pb and ib else "p" if pb else "i"))
                bad("caps", " ".join(parts))
            else:
                bad("caps", "")
        for cls in CLASSES:
            want = any(ascii_lower(e.name).endswith(x) for x in lists[cls])
            if c[cls] != model.b(want):
                out.add("C04/meta/%s/%s" % (cls, "overridden" if case["override"] and case["override"]["cls"] == cls else "default"),
                        entry=p, printed=c[cls], want=model.b(want), active_list=lists[cls][:12])
    out.nontrivial = len(kinds) >= 3 or bool(case["override"])
    out.classes += ["meta", "kinds=%d" % len(kinds), "root=" + case["root"]] + (["symlinks-option"] if case.get("symlinks") else []) + (["override=" + case["override"]["cls"]] if case["override"] else [])
    out.sample = {"kind": "meta", "entries": len(ents), "override": case["override"], "root": case["root"]}


def check_content(out, case, base):
    trees.materialize(base, case["tree"])
    needles = case["needles"]
    cols = ["name", "sha1", "sha256", "sha512", "sha3", "line_count", "is_shebang", "size"] + ["contains(%s)" % lang.quote(n) for n in needles]
    rows = run(out, base, "select " + ", ".join(cols) + " from . into list", len(cols), tag="C04/content")
    if rows is None:
        return
    big = False
    for r in rows:
        c = dict(zip(cols, r))
        data = open(os.path.join(base, c["name"]), "rb").read()
        big = big or len(data) > 32768
        for col, h in (("sha1", hashlib.sha1), ("sha256", hashlib.sha256), ("sha512", hashlib.sha512), ("sha3", hashlib.sha3_512)):
            if c[col] != h(data).hexdigest():
                out.add("C04/content/" + col, entry=c["name"], size=len(data), printed=c[col][:16], want=h(data).hexdigest()[:16])
        if c["line_count"] != str(data.count(b"\n")):
            out.add("C04/content/line_count", entry=c["name"], size=len(data), printed=c["line_count"], want=data.count(b"\n"))
        if c["is_shebang"] != model.b(data[:2] == b"#!"):
            out.add("C04/content/is_shebang", entry=c["name"], head=data[:4].hex(), printed=c["is_shebang"])
        if c["size"] != str(len(data)):
            out.add("C04/content/size", entry=c["name"], printed=c["size"], want=len(data))
        try:
            text = data.decode("utf-8")
        except UnicodeDecodeError:
            text = None
        if text is not None:
            for n in needles:
                col = "contains(%s)" % lang.quote(n)
                if c[col] != model.b(n in text):
                    out.add("C04/content/contains", entry=c["name"], needle=n, printed=c[col], want=model.b(n in text), size=len(data))
    if len(rows) != len(case["tree"]):
        out.add("C04/content/rows", rows=len(rows), want=len(case["tree"]))
    out.nontrivial = big
    out.classes += ["content"] + (["content>32KiB"] if big else [])
    out.sample = {"kind": "content", "files": {k: (len(trees.node_bytes(v) or b"")) for k, v in case["tree"].items()}, "needles": needles}


def check(case):
    out = Outcome()
    cdir = runner.new_case_dir()
    base = os.path.join(cdir, "t")
    os.mkdir(base)
    try:
        k = case["kind"]
        if k == "perm-disk":
            check_perm_disk(out, base)
        elif k == "perm-zip":
            check_perm_zip(out, base, case["type"])
        elif k == "xattr-own":
            check_xattr_own(out, base)
        elif k == "caps":
            check_caps(out, base, case["caps"])
        elif k == "default-lists":
            # the usage document's default lists are a subset check: every documented extension is in the active default
            dl = default_lists()
            for cls in CLASSES + ["is_zip_archive"]:
                if cls not in dl or not dl[cls]:
                    out.add("C04/default-lists/missing", cls=cls)
            out.evals += 1
            out.nt_keys = ["defaults|" + c for c in CLASSES]
            out.sample = {"kind": "default-lists", "is_zip_archive": dl.get("is_zip_archive")}
        elif k == "meta":
            check_meta(out, case, base)
        else:
            check_content(out, case, base)
    finally:
        runner.rmtree(cdir)
    if out.nt_keys:
        out.nontrivial = True
    return out


PINNED = [
    ("symlink-and-block-are-not-char", {"kind": "meta", "root": ".", "override": None, "tree": {
        "l": {"t": "l", "to": "f"}, "f": {"t": "f", "c": "x"}, "d": {"t": "d", "ch": {}}}}),
    ("content-boundaries", {"kind": "content", "needles": ["needle", "absent"], "tree": {
        "a.dat": {"t": "f", "rep": ["0a", 32769, ""]}, "b.dat": {"t": "f", "c": "p" * 32765 + "needle\n"}, "c.dat": {"t": "f", "c": "#!"}}}),
]
