"""C07 Aggregate functions return the mathematical aggregate of the matching entries (DESIGN.md 4, C07)."""
import math
import os
from fractions import Fraction

from hypothesis import strategies as st

from .. import runner, trees
from ..engine import Outcome
from . import c02, c05

ID = "C07"
LEVEL = "exploration"
RULE = ("attribute trees with 0, 1, 2 and 3..40 matching entries, sizes whose mean is fractional, sparse files above "
        "2^32 bytes; select lists that are non-empty sub-lists (order varied) of the nine aggregates over size, "
        "hardlinks, uid, line_count (files only), length(name), plus count(*); optional WHERE (including one that "
        "matches nothing). Oracle: the same query without aggregates gives the multiset of inner values (fselect's own "
        "row set); the aggregate query must print exactly one row with COUNT = n, exact SUM/MIN/MAX, AVG = SUM/COUNT "
        "(rel. 1e-12, Fraction reference), VAR/STDDEV population and sample formulas (rel. 1e-9). Non-trivial = n >= 2 "
        "and SUM mod COUNT != 0 for some aggregated expression (fractional mean); n = 0 and n = 1 counted as classes.")
ASSUMPTIONS = [
    "MIN/MAX/AVG/variance of an empty set and sample variance of a single value are not asserted (only one row, COUNT = 0, SUM = 0)",
    "inner values are taken from fselect's own non-aggregate run of the same query (C02/C04 check them)",
]

AGGS = ["count", "sum", "min", "max", "avg", "var_pop", "var_samp", "stddev_pop", "stddev_samp"]
AGG_SPELL = {"stddev_pop": ["stddev_pop", "stddev", "std"], "var_pop": ["var_pop", "variance"]}
# "an aggregate may wrap a scalar expression": integer-valued arithmetic, values below zero included
INNER = ["size", "size", "hardlinks", "uid", "length(name)", "size - 100", "length(name) - 6", "size * 2", "-size", "size * size", "line_count"]


def examples(tier):
    return 5600 if tier == "quick" else 80000


@st.composite
def agg_list(draw, files_only):
    n = draw(st.sampled_from([1, 2, 3, 4, 6, 9]))
    items = []
    for _ in range(n):
        f = draw(st.sampled_from(AGGS))
        inner = draw(st.sampled_from(INNER if files_only else INNER[:-1]))
        if f == "count" and draw(st.booleans()):
            inner = "*"
        items.append({"f": f, "spell": draw(st.sampled_from(AGG_SPELL.get(f, [f]))), "inner": inner,
                      "upper": draw(st.sampled_from([False, False, True]))})
    return items


@st.composite
def strategy_(draw, tier):
    shape = draw(st.sampled_from(["attr", "attr", "attr", "cluster", "cluster-mixed"]))
    if shape == "attr":
        spec = trees.attr_tree(draw, sizes=(1, 2, 3, 6, 12, 20, 30))
    else:
        # large values with a small spread: the numerically hard case for mean / variance
        spec = trees.attr_tree(draw, sizes=(2, 4, 8)) if shape == "cluster-mixed" else {}
        b = draw(st.sampled_from([2 ** 27, 2 ** 30, 2 ** 32, 2 ** 33, 10 ** 10, 2 ** 40, 3 * 10 ** 12]))
        k = draw(st.sampled_from([2, 3, 5, 8]))
        scale = draw(st.sampled_from([1, 1, 7, 1024]))
        for i in range(k):
            spec["big%d.bin" % i] = {"t": "f", "size": b + scale * draw(st.sampled_from([0, 1, 2, 3, 4, 7, 11, 100, 999]))}
    if shape == "attr" and draw(st.sampled_from(range(4))) == 0:
        spec["huge1"] = {"t": "f", "size": 5000000000}
        if draw(st.booleans()):
            spec["huge2"] = {"t": "f", "size": 4294967296}
    w = draw(st.sampled_from(["none", "none", "atom", "files", "files", "nothing"]))
    if shape != "attr":
        w = draw(st.sampled_from(["none", "big", "big", "files"]))
    where = None
    if w == "atom":
        a = draw(c02.atom(*c02._spec_values(spec)))
        if a["col"] != "line_count":
            where = c02.render(a)
    elif w == "files":
        where = "is_file = true"
    elif w == "big":
        where = "size >= 100m"
    elif w == "nothing":
        where = "size < 0 or name = 'no-such-entry'" if draw(st.booleans()) else "name = 'no-such-entry'"
    aggs = draw(agg_list(w == "files"))
    if shape != "attr":
        aggs = [dict(a, inner="size") if a["inner"] == "line_count" else a for a in aggs]
    if any(a["inner"] == "line_count" for a in aggs):
        # counting the lines of a 5 GB sparse file legitimately takes longer than the CPU watchdog
        spec.pop("huge1", None)
        spec.pop("huge2", None)
    if shape == "attr" and w in ("none", "atom") and draw(st.sampled_from(range(3))) == 0:
        # aggregate a column that is empty for some matching entries
        spec.pop("huge1", None)
        spec.pop("huge2", None)
        aggs = aggs + [{"f": f, "spell": f, "inner": "line_count", "upper": False} for f in draw(st.lists(st.sampled_from(["avg", "sum", "count", "max", "min"]), min_size=1, max_size=3, unique=True))]
    return {"tree": spec, "where": where, "aggs": aggs,
            "depth1": draw(st.sampled_from([False, False, True]))}


def strategy(tier):
    return strategy_(tier)


def agg_text(a):
    s = "%s(%s)" % (a["spell"], a["inner"])
    return s.upper().replace("(NAME)", "(name)") if a["upper"] else s


def reference(f, vals):
    """Exact/float reference for aggregate f over integer list vals (n >= 1 where needed)."""
    n = len(vals)
    if f == "count":
        return n
    if f == "sum":
        return sum(vals)
    if n == 0:
        return None
    if f == "min":
        return min(vals)
    if f == "max":
        return max(vals)
    mean = Fraction(sum(vals), n)
    if f == "avg":
        return mean
    ss = sum((Fraction(v) - mean) ** 2 for v in vals)
    if f in ("var_pop", "stddev_pop"):
        v = ss / n
    else:
        if n < 2:
            return None
        v = ss / (n - 1)
    return v if f.startswith("var") else math.sqrt(float(v))


def rounding_slack(f, vals):
    """Absolute slack for the variance family that any f64 implementation of the textbook two-pass formula
    needs: the mean of large values is rounded to an ulp e of its magnitude, so each deviation carries an error
    of about e and the variance about 2*e*max|dev| + e^2 ("up to floating-point rounding")."""
    if not vals or f in ("count", "sum", "min", "max", "avg"):
        return 0.0
    n = len(vals)
    mean = sum(vals) / n
    e = math.ulp(max(abs(float(v)) for v in vals) or 1.0)
    dev = max(abs(v - mean) for v in vals)
    var_slack = 8 * e * (dev + e)
    if f.startswith("var"):
        return var_slack
    ref_var = sum((v - mean) ** 2 for v in vals) / max(1, n - (1 if f.endswith("samp") else 0))
    sd = math.sqrt(ref_var)
    return var_slack / (2 * sd) if sd > math.sqrt(var_slack) else math.sqrt(var_slack)


def compare(f, cell, ref, vals=None):
    """None when fine, else a short reason."""
    if ref is None:
        return None
    if f in ("count", "sum", "min", "max"):
        try:
            return None if int(cell) == ref else "integer differs"
        except ValueError:
            return "not an integer"
    try:
        x = float(cell)
    except ValueError:
        return "not a number"
    r = float(ref)
    tol = 1e-12 if f == "avg" else 1e-9
    if x == r or abs(x - r) <= tol * max(abs(r), 1e-300) + rounding_slack(f, vals):
        return None
    return "value differs"


def inner_values(out, base, tail, inners, tag):
    """{inner expr: [int values]} from the non-aggregate run; '*' handled by the caller."""
    exprs = sorted({i for i in inners if i != "*"}) or ["size"]
    rows = c05.run_rows(out, base, "select path, " + ", ".join(exprs) + tail + " into list", 1 + len(exprs), tag)
    if rows is None:
        return None, None
    vals = {}
    for j, e in enumerate(exprs):
        col = []
        for r in rows:
            if r[1 + j] == "":
                col.append(None)        # no value for this entry (e.g. line_count of a directory)
                continue
            try:
                col.append(int(r[1 + j]))
            except ValueError:
                col = None
                break
        vals[e] = col
    return vals, rows


def check(case):
    out = Outcome()
    cdir = runner.new_case_dir()
    base = os.path.join(cdir, "t")
    os.mkdir(base)
    try:
        trees.materialize(base, case["tree"])
        tail = " from ." + (" depth 1" if case["depth1"] else "") + (" where " + case["where"] if case["where"] else "")
        aggs = case["aggs"]
        vals, rows = inner_values(out, base, tail, [a["inner"] for a in aggs], "C07")
        if vals is None:
            return out
        n = len(rows)
        q = "select " + ", ".join(agg_text(a) for a in aggs) + tail + " into list"
        res = runner.run([q], cwd=base)
        out.evals += 1
        if res.wall_timeout:
            out.inconclusive = True
            return out
        if res.status != 0 or res.sig is not None or res.err:
            out.add("C07/run-failed", query=q, status=res.status, signal=res.sig, stderr=res.err[:300])
            return out
        cells = res.out.split(b"\0")
        if cells and cells[-1] == b"":
            cells.pop()
        cells = [c.decode("utf-8", "replace") for c in cells]
        if len(cells) != len(aggs):
            out.add("C07/not-exactly-one-row", query=q, cells=cells[:20], expected_cells=len(aggs), n=n)
            return out
        frac = False
        for a, cell in zip(aggs, cells):
            v = list(range(n)) if a["inner"] == "*" else vals.get(a["inner"])
            if v is None:
                continue
            missing = any(x is None for x in v)
            present = [x for x in v if x is not None]
            if a["f"] == "count":
                ref = n
            elif not missing:
                ref = reference(a["f"], v)
            elif a["f"] == "sum":
                ref = sum(present)
            elif a["f"] == "avg" and n:
                # the statement: AVG equals SUM divided by COUNT - entries without a value add nothing to the sum
                from fractions import Fraction as _F
                ref = _F(sum(present), n)
                out.classes.append("avg-with-empty-values")
            elif a["f"] in ("min", "max") and present:
                ref = min(present) if a["f"] == "min" else max(present)
            else:
                ref = None        # variance family over a column with missing values: not asserted
            v = present
            why = compare(a["f"], cell, ref, v)
            if why:
                out.add("C07/%s/%s" % (a["f"], "n=0" if n == 0 else "n=1" if n == 1 else "n>=2"), query=q, column=agg_text(a),
                        cell=cell, reference=str(float(ref) if isinstance(ref, Fraction) else ref), n=n, why=why,
                        values=v[:12])
            if n >= 2 and a["inner"] != "*" and v and sum(v) % n != 0:
                frac = True
            if a["inner"] != "*" and v and sum(v) >= 2 ** 32:
                out.classes.append("sum>=2^32")
        out.nontrivial = frac
        out.classes += ["n=0" if n == 0 else "n=1" if n == 1 else "n=2" if n == 2 else "n>=3", "aggs=%d" % len(aggs)]
        if frac:
            out.classes.append("fractional-mean")
        if case["where"]:
            out.classes.append("where")
        if any(k.startswith("big") for k in case["tree"]):
            out.classes.append("large-values-small-spread")
        for a in aggs:
            out.classes.append("f=" + a["f"])
        out.classes = sorted(set(out.classes))
        out.sample = {"query": q, "n": n, "cells": cells[:6]}
    finally:
        runner.rmtree(cdir)
    return out


def _tree():
    return {"a": {"t": "f", "c": "x" * 1}, "b": {"t": "f", "c": "x" * 2}, "c": {"t": "f", "c": "x" * 4}, "d": {"t": "f", "c": "x\ny\n" * 1 + "zz"}}


def _a(f, inner, spell=None):
    return {"f": f, "spell": spell or f, "inner": inner, "upper": False}


PINNED = [
    ("fractional-mean", {"tree": _tree(), "where": "is_file = true", "depth1": True,
                         "aggs": [_a("avg", "size"), _a("sum", "size"), _a("count", "*"), _a("var_pop", "size"), _a("stddev_samp", "size", None)]}),
    ("nested-and-aliases", {"tree": _tree(), "where": None, "depth1": False,
                            "aggs": [_a("min", "length(name)"), _a("max", "length(name)"), _a("stddev_pop", "size", "std"), _a("var_pop", "size", "variance")]}),
    ("empty-set", {"tree": _tree(), "where": "name = 'no-such-entry'", "depth1": False, "aggs": [_a("count", "*"), _a("sum", "size"), _a("avg", "size")]}),
    ("single", {"tree": _tree(), "where": "name = 'c'", "depth1": False, "aggs": [_a("avg", "size"), _a("min", "size"), _a("var_pop", "size")]}),
]
