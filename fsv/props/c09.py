"""C09 Every output format is well-formed and carries exactly the result table (DESIGN.md 4, C09)."""
import collections
import csv
import html
import io
import itertools
import json
import os
import re

from hypothesis import strategies as st

from .. import runner, trees
from ..engine import Outcome

ID = "C09"
LEVEL = "exploration"
RULE = ("result tables from the four result paths (streamed, ordered buffer, single aggregate row, grouped rows) with "
        "0, 1 and many rows and 1..7 columns (a fifth of the cases select one column twice) over trees whose names come from adversarial classes (all ASCII "
        "punctuation, quotes, comma, semicolon, < > &, tab and newline, leading/trailing spaces, multi-byte UTF-8, "
        "number/boolean/null look-alikes, letters whose code point ends in the byte of a format's special character), one root or 2-4 roots in FROM (rows split between roots, an empty root, a root listed twice, root options), and long rows (> 8 KiB and > 64 KiB via nested multi-byte directories and "
        "concat). Each table is requested in all six formats; `into list` is the reference T. Oracle: JSON parses to a "
        "list of objects that carry T's rows under a consistent key->column assignment; CSV parses (strict) to T; "
        "HTML matches a strict grammar and its unescaped cells are T; tabs/lines split back to T when no value contains "
        "the separator. Non-trivial = >= 2 rows and a cell with a character special in the target format, or a row "
        "longer than 8 KiB; distinct by (tree, query, format).")
ASSUMPTIONS = [
    "column order inside JSON objects, the CSV line terminator and colours are not asserted; columns are distinct",
    "row order is compared only on the ordered path (readdir / hash order elsewhere: multisets)",
]

FORMATS = ["json", "csv", "html", "tabs", "lines"]
ADV_NAMES = ['a"b', "a'b", "a,b", "a;b", "<x>", "a&b", "a&amp;b", "x<y", "p>q", "<td>x<tr>", "tab\tname", "new\nline",
             " lead", "trail ", "two  sp", "null", "true", "123", "1e5", "-5", "a\\b", "\\", "{j}", "[k]", "a:b", "é",
             "日本語", "\U0001F600", "naïve.txt", "q?.txt", "st*r", "#h", "$d", "%p", "(r)", "+s", "=t", "@u", "^v",
             "`w", "|x", "~y", "!z", "cr\rx", 'mix"<&>\',\t', "ü" * 40, "plain.txt", "b.log", "ctl\x01x", "\x7f"]
# characters whose code point ends in the byte of a character that is special in some format (U+0126 ends in 0x26 '&',
# U+013C in '<', U+012C in ',', U+0122 in '"', U+010A in LF ...): they are ordinary letters and must pass unchanged
_LOW = [0x22, 0x26, 0x27, 0x2C, 0x3C, 0x3E, 0x5C, 0x09, 0x0A, 0x0D, 0x3B]
ADV_NAMES += [chr(0x100 + b) + "w%02x" % b for b in _LOW] + ["".join(chr(0x4E00 + b) for b in _LOW), "".join(chr(0x2000 + b) for b in (0x26, 0x27, 0x22))]
COLS = ["name", "path", "ext", "dir", "size", "mode", "is_dir", "modified", "length(name)", "upper(name)", "abspath",
        "lower(ext)"]


def examples(tier):
    return 4200 if tier == "quick" else 56000


@st.composite
def strategy_(draw, tier):
    n = draw(st.sampled_from([0, 1, 2, 3, 5, 8, 12]))
    names = draw(st.lists(st.sampled_from(ADV_NAMES), min_size=n, max_size=n, unique=True))
    tree = {}
    for nm in names:
        if draw(st.sampled_from(range(4))) == 0:
            sub = draw(st.lists(st.sampled_from(ADV_NAMES), min_size=0, max_size=2, unique=True))
            tree[nm] = {"t": "d", "ch": {s: {"t": "f", "c": "x"} for s in sub}}
        else:
            tree[nm] = {"t": "f", "c": draw(st.sampled_from(["", "a", "abc\n"]))}
    long_rows = draw(st.sampled_from([None, None, None, "8k", "64k"]))
    if long_rows:
        unit = draw(st.sampled_from(["é" * 120, "日" * 80, "a" * 200]))
        cur = tree
        for i in range(12):
            cur["%s%d" % (unit, i)] = {"t": "d", "ch": {}}
            cur = cur["%s%d" % (unit, i)]["ch"]
        cur["leaf,\"q\".txt"] = {"t": "f", "c": "z"}
    path = draw(st.sampled_from(["streamed", "streamed", "ordered", "aggregate", "grouped", "grouped"]))
    ncols = draw(st.sampled_from([1, 2, 3, 4, 6]))
    cols = draw(st.lists(st.sampled_from(COLS), min_size=ncols, max_size=ncols, unique=True))
    if long_rows:
        cols = ["path", "dir"] + [c for c in cols if c not in ("path", "dir")][:3]
        reps = 3 if long_rows == "8k" else 24
        cols.append("concat(" + ", ".join(["path"] * reps) + ")")
    if not long_rows and draw(st.sampled_from(range(5))) == 0:
        # the same column twice (also spelled differently): a row still has one value per selected column
        d = draw(st.sampled_from(cols))
        cols = cols + [draw(st.sampled_from([d, d.upper(), d]))]
    where = draw(st.sampled_from([None, None, "is_file = true", "size >= 0", "name = 'no-such'"]))
    if path == "aggregate":
        cols = draw(st.lists(st.sampled_from(["count(*)", "sum(size)", "max(size)", "avg(size)", "min(length(name))"]),
                             min_size=1, max_size=3, unique=True))
    elif path == "grouped":
        key = draw(st.sampled_from(["name", "name", "ext", "dir", "path"]))
        cols = [key] + draw(st.lists(st.sampled_from(["count(*)", "sum(size)", "max(size)"]), min_size=0, max_size=2, unique=True))
    roots = None
    if not long_rows and draw(st.sampled_from(range(3))) == 0:
        # several roots in FROM: the separators/brackets of a format must not depend on where a root's rows start
        items = sorted(tree.items())
        cut = draw(st.sampled_from(range(len(items) + 1)))
        tree = {"r1": {"t": "d", "ch": dict(items[:cut])}, "r2": {"t": "d", "ch": dict(items[cut:])}, "r3": {"t": "d", "ch": {}}}
        roots = draw(st.lists(st.sampled_from(["r1", "r2", "r3", ".", "r1 depth 1", "r2 bfs"]), min_size=2, max_size=4))
    # group rows ordered by a key that is (or is not) one of the displayed columns: a row is as long as the select list
    gorder = draw(st.sampled_from([None, "1", "max(size) desc", "min(length(name)), 1", "count(*) desc, 1"])) if path == "grouped" else None
    return {"tree": tree, "path": path, "cols": cols, "where": where, "roots": roots, "gorder": gorder,
            # a LIMIT on group rows too: which groups survive must not differ from one run (format) to the next
            "limit": draw(st.sampled_from([None, None, None, 1, 3])) if path in ("streamed", "ordered", "grouped") else None}


def strategy(tier):
    return strategy_(tier)


def query(case, fmt):
    q = "select " + ", ".join(case["cols"]) + " from " + (", ".join(case["roots"]) if case.get("roots") else ".")
    if case["where"]:
        q += " where " + case["where"]
    if case["path"] == "grouped":
        q += " group by " + case["cols"][0]
        if case.get("gorder"):
            q += " order by " + case["gorder"]
    if case["path"] == "ordered":
        q += " order by " + ("path" if "path" in case["cols"] else "name") + ", path"
    if case["limit"]:
        q += " limit %d" % case["limit"]
    return q + " into " + fmt


class Bad(Exception):
    pass


def parse_json(text, k):
    try:
        v = json.loads(text)
    except ValueError as e:
        raise Bad("not valid JSON: %s" % e)
    if not isinstance(v, list):
        raise Bad("top-level value is not an array")
    for o in v:
        if not isinstance(o, dict):
            raise Bad("array element is not an object")
        if len(o) != k:
            raise Bad("object has %d members for %d columns" % (len(o), k))
        if not all(isinstance(x, str) for x in o.values()):
            raise Bad("member value is not a string")
    return v


def json_rows(objs, ref_rows, k):
    """Find a key->column assignment consistent over all rows; return rows in T's column order."""
    if not objs:
        return []
    keys = sorted(objs[0])
    for o in objs:
        if sorted(o) != keys:
            raise Bad("objects have different key sets")
    # candidates by multiset comparison against T is done by the caller; here try all assignments (k <= 6..7)
    best = None
    tset = collections.Counter(ref_rows)
    for perm in itertools.permutations(range(k)):
        rows = [tuple(o[keys[perm.index(j)]] for j in range(k)) for o in objs]
        if collections.Counter(rows) == tset:
            return rows
        if best is None:
            best = rows
    return best


def parse_csv(text, k):
    try:
        rows = list(csv.reader(io.StringIO(text, newline=""), strict=True))
    except csv.Error as e:
        raise Bad("not valid CSV: %s" % e)
    for r in rows:
        if len(r) != k:
            raise Bad("record with %d fields for %d columns" % (len(r), k))
    return [tuple(r) for r in rows]


_ENT = re.compile(r"&(?!(amp|lt|gt|quot|apos|#[0-9]{1,7}|#[xX][0-9A-Fa-f]{1,6});)")   # any well-formed character reference
_DOC = re.compile(r"\A<html><body><table>(.*)</table></body></html>\s*\Z", re.S)
_ROW = re.compile(r"<tr>(.*?)</tr>", re.S)
_CELL = re.compile(r"<td>([^<>]*)</td>", re.S)


def parse_html(text, k):
    m = _DOC.match(text)
    if not m:
        raise Bad("document is not <html><body><table>...</table></body></html>")
    body = m.group(1)
    rows = []
    pos = 0
    for rm in _ROW.finditer(body):
        if rm.start() != pos:
            raise Bad("stray text between rows: %r" % body[pos:rm.start()][:60])
        pos = rm.end()
        inner = rm.group(1)
        cells = []
        cpos = 0
        for cm in _CELL.finditer(inner):
            if cm.start() != cpos:
                raise Bad("stray markup inside a row: %r" % inner[cpos:cm.start()][:60])
            cpos = cm.end()
            raw = cm.group(1)
            if _ENT.search(raw):
                raise Bad("unescaped & in cell %r" % raw[:60])
            # what every HTML / XML parser does to the raw text before anything else: CR LF and a lone CR become LF
            # (a carriage return only survives as a character reference)
            raw = raw.replace("\r\n", "\n").replace("\r", "\n")
            cells.append(html.unescape(raw))
        if cpos != len(inner):
            raise Bad("stray markup inside a row: %r" % inner[cpos:][:60])
        if len(cells) != k:
            raise Bad("row with %d cells for %d columns" % (len(cells), k))
        rows.append(tuple(cells))
    if pos != len(body):
        raise Bad("stray text after the last row: %r" % body[pos:][:60])
    return rows


def parse_flat(text, k, sep):
    if text == "":
        return []
    if sep == "\t":
        if not text.endswith("\n"):
            raise Bad("last line not terminated")
        rows = [tuple(l.split("\t")) for l in text[:-1].split("\n")]
        for r in rows:
            if len(r) != k:
                raise Bad("line with %d fields for %d columns" % (len(r), k))
        return rows
    if not text.endswith("\n"):
        raise Bad("last line not terminated")
    vals = text[:-1].split("\n")
    if len(vals) % k:
        raise Bad("%d lines for %d columns" % (len(vals), k))
    return [tuple(vals[i:i + k]) for i in range(0, len(vals), k)]


SPECIAL = {"json": '"\\\n\t\r\x01\x7f', "csv": '",\n\r', "html": "<>&\"'", "tabs": "", "lines": ""}


def check(case):
    out = Outcome()
    cdir = runner.new_case_dir()
    base = os.path.join(cdir, "t")
    os.mkdir(base)
    nt = []
    try:
        trees.materialize(base, case["tree"])
        k = len(case["cols"])
        ref = runner.run([query(case, "list")], cwd=base)
        out.evals += 1
        if ref.wall_timeout:
            out.inconclusive = True
            return out
        if ref.status != 0 or ref.err:
            out.add("C09/run-failed", query=query(case, "list"), status=ref.status, stderr=ref.err[:300])
            return out
        try:
            T = runner.rows(ref.out, k)
        except ValueError as e:
            out.add("C09/list-malformed/%s" % case["path"], query=query(case, "list"), err=str(e))
            return out
        tcount = collections.Counter(T)
        ordered = case["path"] == "ordered"
        rowlen = max([sum(len(c.encode("utf-8", "surrogateescape")) for c in r) for r in T] or [0])
        for fmt in FORMATS:
            q = query(case, fmt)
            res = runner.run([q], cwd=base)
            out.evals += 1
            if res.wall_timeout:
                out.inconclusive = True
                continue
            if res.status != 0 or res.err:
                out.add("C09/run-failed", query=q, status=res.status, stderr=res.err[:300])
                continue
            try:
                text = res.out.decode("utf-8")
            except UnicodeDecodeError as e:
                out.add("C09/%s/%s/not-utf8" % (fmt, case["path"]), query=q, err=str(e))
                continue
            flat_ok = True
            try:
                if fmt == "json":
                    rows = json_rows(parse_json(text, k), T, k)
                elif fmt == "csv":
                    rows = parse_csv(text, k)
                elif fmt == "html":
                    rows = parse_html(text, k)
                else:
                    sep = "\t" if fmt == "tabs" else "\n"
                    if any(("\n" in c) or (sep in c) or ("\r" in c and fmt == "lines" and False) for r in T for c in r):
                        flat_ok = False
                        rows = None
                    else:
                        rows = parse_flat(text, k, sep)
            except Bad as e:
                out.add("C09/%s/%s/malformed" % (fmt, case["path"]), query=q, why=str(e), output=text[:300], rows_in_T=len(T))
                continue
            if not flat_ok:
                continue
            same = (rows == T) if ordered else (collections.Counter(rows) == tcount)
            if not same:
                lost = list((tcount - collections.Counter(rows)).elements())[:3]
                inv = list((collections.Counter(rows) - tcount).elements())[:3]
                out.add("C09/%s/%s/content-differs" % (fmt, case["path"]), query=q, rows_in_T=len(T), rows_decoded=len(rows),
                        lost=[[c[:80] for c in r] for r in lost], invented=[[c[:80] for c in r] for r in inv], long_row_bytes=rowlen)
                continue
            special = any(ch in c for r in T for c in r for ch in SPECIAL[fmt])
            if len(T) >= 2 and (special or rowlen > 8192):
                nt.append("%s|%s" % (q, json.dumps(case["tree"], sort_keys=True)[:4000]))
                out.classes.append("nontrivial:%s/%s" % (fmt, case["path"]))
        out.classes += ["path=" + case["path"], "rows=%s" % ("0" if not T else "1" if len(T) == 1 else "many"),
                        "cols=%d" % k]
        if case.get("roots"):
            out.classes.append("several-roots")
        if rowlen > 65536:
            out.classes.append("row>64KiB")
        elif rowlen > 8192:
            out.classes.append("row>8KiB")
        if case.get("gorder"):
            out.classes.append("grouped+ordered-by-" + ("hidden-key" if case["gorder"][0] != "1" else "shown-key"))
        out.classes = sorted(set(out.classes))
        out.sample = {"query": query(case, "FORMAT"), "rows": len(T), "first_row": [c[:40] for c in T[0]] if T else None}
    finally:
        runner.rmtree(cdir)
    out.nt_keys = nt
    out.nontrivial = bool(nt)
    return out


def _t(names):
    return {n: {"t": "f", "c": "x"} for n in names}


PINNED = [
    ("html-escaping", {"tree": _t(["<x>", "a&b", "p>q", "<td>x<tr>", "plain"]), "path": "streamed", "cols": ["name", "size"], "where": None, "limit": None}),
    ("grouped-separators", {"tree": _t(["a.txt", "b.log", "c.txt", "d"]), "path": "grouped", "cols": ["ext", "count(*)"], "where": None, "limit": None}),
    ("csv-quotes-newlines", {"tree": _t(['a"b', "a,b", "new\nline", " lead", "cr\rx"]), "path": "ordered", "cols": ["name", "ext"], "where": None, "limit": None}),
    ("empty-result", {"tree": _t(["a"]), "path": "streamed", "cols": ["name"], "where": "name = 'no-such'", "limit": None}),
    ("aggregate-row", {"tree": _t(["a", "b"]), "path": "aggregate", "cols": ["count(*)", "sum(size)"], "where": None, "limit": None}),
]


def _long_tree():
    tree = {}
    cur = tree
    for i in range(12):
        cur["%s%d" % ("é" * 120, i)] = {"t": "d", "ch": {}}
        cur = cur["%s%d" % ("é" * 120, i)]["ch"]
    cur["leaf.txt"] = {"t": "f", "c": "z"}
    return tree


PINNED.append(("csv-long-multibyte-row", {"tree": _long_tree(), "path": "streamed",
                                          "cols": ["path", "dir", "concat(path, path, path)"], "where": None, "limit": None}))
