"""C17 One failing directory, file or reader never spoils the rest of the search (DESIGN.md 4, C17)."""
import collections
import fcntl
import itertools
import os
import resource
import signal
import subprocess
import time

from hypothesis import strategies as st

from .. import model, runner, trees
from ..engine import Outcome, canon

ID = "C17"
LEVEL = "fault_enumeration"
RULE = ("fault plans over generated trees (depth <= 4, content files), search run as uid 65534: (i) every single directory "
        "of the tree made unlistable in turn (thorough: every subset of <= 3), (ii) files made unreadable, (iii) dangling "
        "links, (iv) failing archive readers under the `archives` option (`*.zip` names on text, empty files, dangling links, "
        "unreadable files); queries metadata-only / content-derived / aggregate, bfs and dfs, streamed and ordered. Oracle: rows == "
        "the fault-free rows of every entry outside the unlistable directories (the directory itself is still listed), "
        "stderr names each failing path, exit status 1; the fault-free control run exits 0 with empty stderr; an "
        "unreadable file keeps its row and metadata cells, its content cells are empty, all other rows are unchanged and "
        "aggregates equal the model over readable data. Output side: six formats x four result paths with >= 64 KiB of "
        "output into a 4 KiB pipe whose reader closes after exactly K bytes, K in {closed before exec, 0, 1..64, powers "
        "of two to 32768}: the child must end by itself with status 0 or 1 and no panic message. Non-trivial = the "
        "fault position has rows behind it and rows outside it; for pipes K smaller than the total output.")
ASSUMPTIONS = [
    "a fault is a permission fault for an unprivileged process (chmod 000); vanished directories are not injected",
    "exit status when only a file is unreadable may be 0 or 1; wording of messages and bytes written before EPIPE is noticed are don't-care",
]
EXHAUSTIVE_NOTE = "every single-directory fault position of each generated tree; every close offset in the listed K set for all 6 formats x 4 result paths"

FORMATS = ["tabs", "lines", "list", "csv", "json", "html"]
PATHS = {
    "streamed": "select path, name, size from . %s",
    "ordered": "select path, name, size from . order by name desc %s",
    "aggregate": "select count(*), sum(size), max(size) from . %s",
    "grouped": "select name, count(*) from . group by name %s",
}
KS = ["pre-exec", 0] + list(range(1, 65)) + [128, 256, 512, 1024, 2048, 4096, 8192, 16384, 32768]

_names = trees.names("plain", "ext", "dot")
_leaf = st.sampled_from([{"t": "f", "c": "hello\nworld\n"}, {"t": "f", "c": "#!/bin/sh\n"}, {"t": "f", "c": ""},
                         {"t": "f", "c": "x" * 3000 + "\n"}, {"t": "l", "to": "nowhere"}, {"t": "f", "c": "needle in hay\n"}])


def examples(tier):
    return 1400 if tier == "quick" else 14000


@st.composite
def strategy_(draw, tier):
    spec = trees.grow(draw, [4, 6, 9, 12, 16], _names, _leaf, dir_ratio=(2, 5), max_depth=4)
    qkind = draw(st.sampled_from(["meta", "content", "aggregate", "meta-ordered"]))
    mode = draw(st.sampled_from(["", "bfs", "dfs", "archives", "archives dfs"]))
    if mode.startswith("archives"):
        # failing *readers*: every k-th leaf becomes an archive by name - text that is no zip, an empty file, a
        # dangling link; with file faults the first of them is also unreadable for the searching user
        k = draw(st.sampled_from([1, 2, 3]))
        spec = _zip_names(spec, k)
    return {"kind": "tree-faults", "tree": spec, "query": qkind, "mode": mode,
            "file_faults": draw(st.sampled_from([0, 1, 2])), "subset": draw(st.sampled_from([1, 1, 2, 3])) if tier == "thorough" else 1}


def _zip_names(spec, k):
    cnt = [0]

    def go(ch):
        outd = {}
        for nm, n in ch.items():
            if n["t"] == "d":
                outd[nm] = dict(n, ch=go(n["ch"]))
                continue
            cnt[0] += 1
            new = nm + ".zip" if (cnt[0] % k == 0 and not nm.endswith(".zip") and (nm + ".zip") not in ch) else nm
            outd[new] = n
        return outd
    return go(spec)


def strategy(tier):
    return strategy_(tier)


def enumerate_cases(tier):
    ks = KS if tier == "thorough" else ["pre-exec", 0, 1, 2, 3, 7, 16, 63, 64, 512, 4096, 8192, 32768]
    cases = [{"kind": "pipe", "format": f, "path": p, "ks": ks} for f in FORMATS for p in PATHS]
    # a link whose target cannot be read, and a file whose content cannot be read: what stays and what is empty
    for mode in ("", "dfs"):
        for tail in ("", " order by name"):
            cases.append({"kind": "unreadable-target", "mode": mode, "tail": tail})
            cases.append({"kind": "unsearchable-dir", "mode": mode, "tail": tail})
    return cases


# ---------------------------------------------------------------- tree faults

QUERIES = {
    "meta": ("select path, name, size, mode from . %s into list", 4, False),
    "meta-ordered": ("select path, name, size, mode from . %s order by path into list", 4, True),
    "content": ("select path, size, sha1, line_count, is_shebang, contains('needle') from . %s into list", 6, False),
    "aggregate": ("select count(*), sum(size), sum(line_count) from . %s into list", 3, False),
}


def run_nobody(out, base, q, ncols):
    res = runner.run([q], cwd=base, nobody=True)
    out.evals += 1
    if res.wall_timeout:
        out.inconclusive = True
        return None, res
    if res.sig is not None or res.status not in (0, 1) or b"panicked at" in res.err:
        out.add("C17/abnormal-exit", query=q, status=res.status, signal=res.sig, stderr=res.err[:300])
        return None, res
    try:
        return runner.rows(res.out, ncols), res
    except ValueError as e:
        out.add("C17/list-malformed", query=q, err=str(e))
        return None, res


def check_tree_faults(out, case):
    cdir = runner.new_case_dir()
    base = os.path.join(cdir, "t")
    os.mkdir(base)
    os.chmod(base, 0o755)
    nt = []
    try:
        trees.materialize(base, case["tree"])
        for dp, dn, fn in os.walk(base):
            os.chmod(dp, 0o755)
        qt, ncols, ordered = QUERIES[case["query"]]
        q = qt % case["mode"]
        # control run: nothing fails
        control, res = run_nobody(out, base, q, ncols)
        if control is None:
            return
        dangling = any(n["t"] == "l" for _, n, _ in trees.walk(case["tree"]))
        content_q = case["query"] in ("content", "aggregate")
        if res.status != 0 or res.err:
            if not (dangling and content_q):   # reading through a dangling link may count as a file-reading error
                out.add("C17/control-run-not-clean", query=q, status=res.status, stderr=res.err[:300])
        ents = model.observe(base, ".")
        dirs = [e for e in ents if e.kind == "d"]
        files = [e for e in ents if e.kind == "f"]
        if "archives" in case["mode"]:
            # no generated file is a real zip archive: every archive reader fails (not a zip, empty, dangling link)
            # and must cost nothing but its own members - the rows are exactly the entries of the tree
            files.sort(key=lambda e: (not e.name.endswith(".zip"), e.path))
            if case["query"] in ("meta", "meta-ordered", "content"):
                gotp = collections.Counter(r[0] for r in control)
                wantp = collections.Counter(e.path for e in ents)
                if gotp != wantp:
                    out.add("C17/reader-fault/rows/%s" % ("lost" if wantp - gotp else "extra"), query=q,
                            lost=sorted((wantp - gotp).elements())[:5], extra=sorted((gotp - wantp).elements())[:5])
            elif control and control[0][0] != str(len(ents)):
                out.add("C17/reader-fault/aggregate", query=q, got=control[0][0], want=len(ents))
            if any(e.name.endswith(".zip") for e in ents):
                out.classes.append("failing-archive-readers")
                nt.append("%s|%s|readers" % (canon(case["tree"]), q))
        tkey = canon(case["tree"])
        # (i) directory faults
        plans = [[d] for d in dirs]
        if case["subset"] > 1 and len(dirs) >= 2:
            plans += [list(c) for c in itertools.islice(itertools.combinations(dirs, case["subset"]), 12)]
        for plan in plans:
            for d in plan:
                os.chmod(d.abspath, 0)
            try:
                rows, res = run_nobody(out, base, q, ncols)
            finally:
                for d in plan:
                    os.chmod(d.abspath, 0o755)
            if rows is None:
                continue
            hidden = lambda p: any(p.startswith(d.path + "/") for d in plan)
            # outermost faulty directories are the ones fselect will actually try to list
            reached = [d for d in plan if not hidden(d.path)]
            if case["query"] == "aggregate":
                vis = [e for e in ents if not hidden(e.path)]
                want_count = len(vis)
                want_sum = sum(e.st.st_size for e in vis)
                if rows and (rows[0][0] != str(want_count) or rows[0][1] != str(want_sum)):
                    out.add("C17/dir-fault/aggregate", query=q, fault=[d.path for d in plan], got=list(rows[0]), want=[want_count, want_sum])
            else:
                # the faulty directory's own row is still expected, but its mode column necessarily differs
                # from the control run (it is d--------- while the fault is active): compare its path only
                fp = {d.path for d in plan}
                norm = lambda rs: [((r[0],) if r[0] in fp else r) for r in rs]
                want = norm([r for r in control if not hidden(r[0])])
                rows = norm(rows)
                same = (rows == want) if ordered else (collections.Counter(rows) == collections.Counter(want))
                if not same:
                    lost = list((collections.Counter(want) - collections.Counter(rows)).elements())[:4]
                    extra = list((collections.Counter(rows) - collections.Counter(want)).elements())[:4]
                    out.add("C17/dir-fault/rows/%s" % ("lost" if lost else "extra"), query=q, fault=[d.path for d in plan],
                            lost=[r[0] for r in lost], extra=[r[0] for r in extra], mode=case["mode"] or "bfs")
            if res.status != 1:
                out.add("C17/dir-fault/status", query=q, fault=[d.path for d in plan], status=res.status, stderr=res.err[:200])
            err = res.err.decode("utf-8", "replace")
            for d in reached:
                if d.path not in err:
                    out.add("C17/dir-fault/path-not-named", query=q, fault=d.path, stderr=err[:300])
            behind = any(hidden(e.path) for e in ents)
            outside = any(not hidden(e.path) and e not in plan for e in ents)
            if behind and outside:
                nt.append("%s|%s|%s|%s" % (tkey, q, ",".join(d.path for d in plan), "dir"))
                out.classes.append("dir-fault-nontrivial")
            out.classes.append("dir-faults=%d" % len(plan))
        # (i') a search root that does not exist / is not a directory, next to a good root: rows of the good root intact
        if case["query"] in ("meta", "content") and not case["mode"]:
            fname = next((e.name for e in ents if e.kind == "f" and e.level == 1 and " " not in e.name), None)
            for bad, label in (("no-such-dir", "missing-root"), (fname, "file-as-root")):
                if bad is None:
                    continue
                q2 = (qt % "").replace(" from . ", " from ., %s " % bad)
                rows, res = run_nobody(out, base, q2, ncols)
                if rows is None:
                    continue
                if collections.Counter(rows) != collections.Counter(control):
                    out.add("C17/bad-root/%s/rows" % label, query=q2, got=len(rows), want=len(control))
                if res.status != 1 or bad.encode() not in res.err:
                    out.add("C17/bad-root/%s/status-or-message" % label, query=q2, status=res.status, stderr=res.err[:200])
                nt.append("%s|%s|%s" % (tkey, q2, label))
                out.classes.append("bad-root")
        # (ii) unreadable files
        if case["file_faults"] and files and case["query"] != "meta-ordered":
            victims = files[:case["file_faults"]]
            for v in victims:
                os.chmod(v.abspath, 0)
            try:
                rows, res = run_nobody(out, base, q, ncols)
            finally:
                for v in victims:
                    os.chmod(v.abspath, 0o644)
            if rows is not None:
                vp = {v.path for v in victims}
                if case["query"] == "aggregate":
                    readable = [e for e in ents if e.kind == "f" and e.path not in vp]
                    lc = 0
                    for e in readable:
                        with open(e.abspath, "rb") as f:
                            lc += f.read().count(b"\n")
                    # count and size sum do not depend on readability at all
                    if rows and (rows[0][0] != control[0][0] or rows[0][1] != control[0][1]):
                        out.add("C17/file-fault/aggregate", query=q, got=list(rows[0]), control=list(control[0]))
                    # the line count sums over the readable files: an unreadable one in between costs its own lines
                    # only (links: whether lines are counted through them is not asserted - trees with links are skipped)
                    elif rows and not any(e.kind == "l" for e in ents) and rows[0][2] != str(lc):
                        out.add("C17/file-fault/aggregate-over-readable-data", query=q, got=rows[0][2], want=lc,
                                unreadable=sorted(vp), control=control[0][2])
                else:
                    cm = {r[0]: r for r in control}
                    gm = {r[0]: r for r in rows}
                    if set(cm) != set(gm):
                        out.add("C17/file-fault/rows", query=q, lost=sorted(set(cm) - set(gm))[:4], extra=sorted(set(gm) - set(cm))[:4])
                    for p, r in gm.items():
                        c = cm.get(p)
                        if c is None:
                            continue
                        if p not in vp:
                            if r != c:
                                out.add("C17/file-fault/other-row-changed", query=q, path=p, got=list(r), control=list(c))
                        elif case["query"] == "content":
                            # path, size stay; sha1, line_count, contains and is_shebang are empty
                            if r[1] != c[1]:
                                out.add("C17/file-fault/metadata-cell-changed", path=p, got=list(r), control=list(c))
                            if r[2] != "" or r[3] != "" or r[5] != "" or r[4] != "":
                                out.add("C17/file-fault/content-cell-not-empty", query=q, path=p, got=list(r))
                        elif r[:3] != c[:3]:   # the mode column (index 3) is ---------- while the fault is active
                            out.add("C17/file-fault/metadata-cell-changed", path=p, got=list(r), control=list(c))
                if res.status not in (0, 1):
                    out.add("C17/file-fault/status", status=res.status)
                nt.append("%s|%s|%s|file" % (tkey, q, ",".join(sorted(v.path for v in victims))))
                out.classes.append("file-faults")
        out.classes += ["query=" + case["query"], "mode=" + (case["mode"] or "default")]
        out.sample = {"query": q, "dirs": len(dirs), "files": len(files), "fault_positions": [d.path for d in dirs][:6]}
    finally:
        runner.rmtree(cdir)
    out.nt_keys = nt


# ---------------------------------------------------------------- pipe faults

_big = {"pid": None, "base": None}


def big_tree():
    if _big["pid"] != os.getpid() or not _big["base"] or not os.path.isdir(_big["base"]):
        d = runner.new_case_dir()
        base = os.path.join(d, "t")
        os.mkdir(base)
        for i in range(900):
            open(os.path.join(base, "file-%04d-%s.txt" % (i, "n" * 60)), "w").close()
        _big.update(pid=os.getpid(), base=base)
    return _big["base"]


def run_with_reader(argv, cwd, k):
    """Give the child a 4 KiB pipe as stdout; read exactly k bytes (or close before exec), then close."""
    r, w = os.pipe()
    try:
        fcntl.fcntl(w, 1031, 4096)   # F_SETPIPE_SZ
    except OSError:
        pass
    if k == "pre-exec":
        os.close(r)
        r = None
    env = runner.base_env()

    def pre():
        resource.setrlimit(resource.RLIMIT_CPU, (10, 12))
        resource.setrlimit(resource.RLIMIT_CORE, (0, 0))

    p = subprocess.Popen([runner.BINARY] + argv, cwd=cwd, env=env, stdin=subprocess.DEVNULL, stdout=w,
                         stderr=subprocess.PIPE, preexec_fn=pre)
    os.close(w)
    got = 0
    if r is not None:
        try:
            while got < k:
                chunk = os.read(r, k - got)
                if not chunk:
                    break
                got += len(chunk)
        finally:
            os.close(r)
    try:
        _, err = p.communicate(timeout=60)
        timed_out = False
    except subprocess.TimeoutExpired:
        p.kill()
        _, err = p.communicate()
        timed_out = True
    return p.returncode, err, got, timed_out


def check_pipe(out, case):
    base = big_tree()
    q = PATHS[case["path"]] % ("into " + case["format"])
    total = None
    nt = []
    for k in case["ks"]:
        rc, err, got, timed_out = run_with_reader([q], base, k)
        out.evals += 1
        if timed_out:
            out.inconclusive = True
            continue
        ksig = "pre-exec" if k == "pre-exec" else "k=0" if k == 0 else "k>0"
        if rc is not None and rc < 0:
            if -rc in (signal.SIGXCPU, signal.SIGKILL):
                out.add("C17/pipe/hang/%s/%s" % (case["format"], case["path"]), query=q, k=k)
            else:
                out.add("C17/pipe/signal/%s/%s" % (case["format"], case["path"]), query=q, k=k, signal=-rc)
            continue
        if b"panicked at" in err or rc == 101:
            out.add("C17/pipe/panic/%s/%s/%s" % (case["format"], case["path"], ksig), query=q, k=k, status=rc, stderr=err[:300])
            continue
        if rc not in (0, 1):
            out.add("C17/pipe/status/%s/%s" % (case["format"], case["path"]), query=q, k=k, status=rc, stderr=err[:200])
            continue
        if k == "pre-exec" or got == k:
            nt.append("%s|%s" % (q, k))
    out.nt_keys = nt
    out.classes += ["pipe", "format=" + case["format"], "path=" + case["path"]]
    out.sample = {"query": q, "close_after_bytes": [str(k) for k in case["ks"]][:12]}


def check_unreadable_target(out, case):
    """Links whose target cannot be resolved (dangling, a loop, into a directory closed to the user) and a file that
    cannot be opened: the name columns (path, abspath, absdir) and the metadata stay, every content-derived column
    is empty - is_shebang too, which the statement names - and no other row changes."""
    cdir = runner.new_case_dir()
    base = os.path.join(cdir, "t")
    os.makedirs(base + "/c")
    os.chmod(cdir, 0o755)
    os.chmod(base, 0o755)
    os.chmod(base + "/c", 0o755)
    try:
        os.makedirs(base + "/closed")
        open(base + "/closed/inside", "w").close()
        with open(base + "/c/g.txt", "w") as f:
            f.write("#!/bin/sh\nneedle\n")
        with open(base + "/c/secret.sh", "w") as f:
            f.write("#!/bin/sh\nneedle\n")
        os.symlink("nowhere", base + "/c/dangling")
        os.symlink("loop", base + "/c/loop")
        os.symlink("../closed/inside", base + "/c/shut")
        os.chmod(base + "/closed", 0)
        os.chmod(base + "/c/secret.sh", 0)
        cols = ["name", "path", "abspath", "absdir", "size", "is_shebang", "line_count", "sha1", "contains('needle')", "is_text", "is_binary",
                "sha256", "sha512", "sha3"]   # (every digest: each has its own reader)
        q = "select %s from c%s%s into list" % (", ".join(cols), (" " + case["mode"]) if case["mode"] else "", case["tail"])
        res = runner.run([q], cwd=base, nobody=True)
        out.evals += 1
        if res.wall_timeout:
            out.inconclusive = True
            return
        if res.sig is not None or res.status not in (0, 1) or b"panicked at" in res.err:
            out.add("C17/unreadable-target/abnormal-exit", query=q, status=res.status, signal=res.sig, stderr=res.err[:300])
            return
        rows = {r[0]: r for r in runner.rows(res.out, len(cols))}
        real = os.path.realpath(base + "/c")
        want_names = {"g.txt", "secret.sh", "dangling", "loop", "shut"}
        if set(rows) != want_names:
            out.add("C17/unreadable-target/rows", query=q, got=sorted(rows), want=sorted(want_names))
            return
        for n, r in rows.items():
            if r[1] != "c/" + n or r[3] != real or r[2] != real + "/" + n:
                out.add("C17/unreadable-target/name-column-changed", query=q, name=n, path=r[1], abspath=r[2], absdir=r[3],
                        want_abspath=real + "/" + n)
            if n == "g.txt":
                if r[5] != "true" or r[6] != "2" or r[8] != "true" or len(r[7]) != 40 or r[9] != "true" or r[10] != "false" or \
                        [len(c) for c in r[11:14]] != [64, 128, 128]:
                    out.add("C17/unreadable-target/readable-file-changed", query=q, row=list(r))
            elif any(c != "" for c in r[5:]):
                out.add("C17/unreadable-target/content-cell-not-empty", query=q, name=n, cells=dict(zip(cols[5:], r[5:])))
        out.nt_keys = ["unreadable-target|%s|%s" % (case["mode"], case["tail"])]
        out.classes.append("unreadable-target")
        out.sample = {"query": q, "rows": len(rows)}
    finally:
        os.chmod(base + "/closed", 0o755)
        runner.rmtree(cdir)


def check_unsearchable_dir(out, case):
    """A directory that can be listed but not searched (r--): its entries have names and nothing else, and a
    sub-directory in it cannot be listed at all - that is a directory that cannot be listed: named on standard error,
    status 1, and every row outside it as without the fault."""
    cdir = runner.new_case_dir()
    base = os.path.join(cdir, "t")
    try:
        os.chmod(cdir, 0o755)
        for d in ("", "/r", "/r/sub", "/other"):
            os.mkdir(base + d)
            os.chmod(base + d, 0o755)
        for f in ("/ok.txt", "/r/x.txt", "/r/sub/deep.txt", "/other/o.txt"):
            open(base + f, "w").close()
        opts = ((" " + case["mode"]) if case["mode"] else "")
        q = "select path from .%s%s into list" % (opts, case["tail"].replace("name", "path"))
        control, res0 = run_nobody(out, base, q, 1)
        os.chmod(base + "/r", 0o444)
        try:
            rows, res = run_nobody(out, base, q, 1)
        finally:
            os.chmod(base + "/r", 0o755)
        if rows is None or control is None:
            return
        if res0.status != 0 or res0.err:
            out.add("C17/unsearchable-dir/control-run-not-clean", query=q, status=res0.status, stderr=res0.err[:200])
        outside = lambda rs: sorted(r[0] for r in rs if not r[0].startswith("./r/"))
        if outside(rows) != outside(control):
            out.add("C17/unsearchable-dir/rows-outside-changed", query=q, got=outside(rows), want=outside(control))
        err = res.err.decode("utf-8", "replace")
        if res.status != 1 or "./r" not in err:
            out.add("C17/unsearchable-dir/not-reported", query=q, status=res.status, stderr=err[:300])
        out.nt_keys = ["unsearchable-dir|%s|%s" % (case["mode"], case["tail"])]
        out.classes.append("unsearchable-dir")
        out.sample = {"query": q, "status": res.status, "stderr": err[:120]}
    finally:
        runner.rmtree(cdir)


def check(case):
    out = Outcome()
    if case["kind"] == "unsearchable-dir":
        check_unsearchable_dir(out, case)
    elif case["kind"] == "unreadable-target":
        check_unreadable_target(out, case)
    elif case["kind"] == "pipe":
        check_pipe(out, case)
    else:
        check_tree_faults(out, case)
    out.nontrivial = bool(out.nt_keys)
    out.classes = sorted(set(out.classes))
    return out


_T = {"a": {"t": "d", "ch": {"b": {"t": "d", "ch": {"deep.txt": {"t": "f", "c": "needle\n"}}}, "f.txt": {"t": "f", "c": "#!x\n"}}},
      "c": {"t": "d", "ch": {"g.txt": {"t": "f", "c": "1\n2\n"}}}, "top.txt": {"t": "f", "c": "t"}, "dl": {"t": "l", "to": "gone"}}
PINNED = [
    ("dir-faults-bfs-meta", {"kind": "tree-faults", "tree": _T, "query": "meta", "mode": "bfs", "file_faults": 1, "subset": 1}),
    ("dir-faults-dfs-content", {"kind": "tree-faults", "tree": _T, "query": "content", "mode": "dfs", "file_faults": 2, "subset": 2}),
    ("aggregate", {"kind": "tree-faults", "tree": _T, "query": "aggregate", "mode": "", "file_faults": 1, "subset": 1}),
    ("pipe-html-streamed", {"kind": "pipe", "format": "html", "path": "streamed", "ks": ["pre-exec", 0, 10, 5000]}),
    ("pipe-json-ordered", {"kind": "pipe", "format": "json", "path": "ordered", "ks": ["pre-exec", 0, 1, 4096]}),
]
