"""C05 ORDER BY output is sorted by the requested keys and loses or invents no row (DESIGN.md 4, C05)."""
import collections
import os

from hypothesis import strategies as st

from .. import lang, model, runner, trees
from ..engine import Outcome
from . import c02

ID = "C05"
LEVEL = "exploration"
RULE = ("attribute trees with many ties (few distinct sizes incl. 9/10/100/1000, equal names in different dirs, tied "
        "mtimes, a directory with >= 10 subdirectories) x key lists of length 1..3 over text columns, integer-valued "
        "numeric columns, modified and integer-valued expressions (size + 1, size * 2, length(name) + size), asc/desc, "
        "explicit or positional, selected or not, with or without WHERE. Oracle: (1) the ordered rows are a permutation "
        "of the unordered rows; (2) consecutive rows are non-decreasing under the typed key comparison (integers "
        "numerically, dates chronologically, text by UTF-8 bytes; reversed for desc). Key values of each row come from "
        "a separate unordered run joined on path. Non-trivial = (>= 2 keys or a desc) and the first key has a tie and "
        "the ordered sequence differs from the unordered one; distinct by canonical JSON of the case.")
ASSUMPTIONS = [
    "order among rows with fully equal keys is not asserted (no stability claim)",
    "negative or fractional key values, keys starting with a literal (2 * size) and random() are not generated",
    "line_count keys are used with `where is_file = true` only",
]

TEXT_KEYS = ["name", "path", "ext", "dir", "mode",
             # text-valued functions of numeric / date columns are text too
             "hex(size)", "concat(size, name)", "upper(name)", "substr(modified, 1, 4)"]
NUM_KEYS = ["size", "size", "uid", "gid", "hardlinks", "length(name)", "size + 1", "size * 2", "length(name) + size",
            "inode", "blocks", "day(modified)", "month(modified)", "year(modified)", "day(modified)",
            # integer-valued expressions whose numeric operand is not the left-most one, and negative values
            "2 * size", "1000000 - size", "size - 100", "-size", "length(name) - 6", "dow(modified)", "100 + length(name)"]
POSITIONAL_ONLY = ("2 * size", "1000000 - size", "-size", "100 + length(name)")   # a leading number / sign cannot start an ORDER BY key
DATE_KEYS = ["modified"]
EXTRA_COLS = ["name", "size", "ext", "modified", "mode", "uid", "hardlinks", "dir", "is_dir", "length(name)"]


def key_type(k):
    if k in DATE_KEYS:
        return "date"
    if k in TEXT_KEYS:
        return "text"
    return "num"


def examples(tier):
    return 5600 if tier == "quick" else 80000


@st.composite
def order_case(draw, tier, need_keys=True):
    spec = trees.attr_tree(draw, sizes=(8, 12, 16, 24, 32, 40) if tier == "thorough" else (8, 12, 16, 24, 32))
    if draw(st.sampled_from(range(3))) == 0:
        n = draw(st.sampled_from([10, 11, 12]))
        spec["many"] = {"t": "d", "ch": {"s%02d" % i: {"t": "d", "ch": {}} for i in range(n)}}
    nk = draw(st.sampled_from([1, 1, 2, 2, 3])) if need_keys else draw(st.sampled_from([0, 0, 1, 2, 3]))
    cols = draw(st.lists(st.sampled_from(EXTRA_COLS), min_size=1, max_size=3, unique=True))
    where = None
    w = draw(st.sampled_from(["none", "none", "atom", "files"]))
    if w == "atom":
        vals = c02._spec_values(spec)
        a = draw(c02.atom(*vals))
        if a["col"] != "line_count":
            where = c02.render(a)
    elif w == "files":
        where = "is_file = true"
    keys = []
    pool = TEXT_KEYS + TEXT_KEYS + NUM_KEYS + NUM_KEYS + DATE_KEYS * 6 + (["line_count"] if w == "files" else [])
    for _ in range(nk):
        k = draw(st.sampled_from(pool))
        pos = None
        if k in POSITIONAL_ONLY and k not in cols and len(cols) >= 4:
            k = "size - 100"
        if k in POSITIONAL_ONLY or draw(st.sampled_from(range(3))) == 0:
            # positional: the key must be a selected column; index counts `path` as column 1
            if k in cols:
                pos = 2 + cols.index(k)
            elif len(cols) < 4:
                cols.append(k)
                pos = 1 + len(cols)
        d = draw(st.sampled_from(["", "", "asc", "desc", "desc"]))
        keys.append({"expr": k, "dir": d, "pos": pos})
    return {"tree": spec, "cols": cols, "where": where, "keys": keys,
            "mode": draw(st.sampled_from([None, None, "bfs", "dfs"])), "clock": draw(st.sampled_from(CLOCKS))}


def strategy(tier):
    return order_case(tier)


def select_text(case, cols):
    return "select " + ", ".join(["path"] + cols)


def tail_text(case):
    s = " from ." + (" " + case["mode"] if case["mode"] else "")
    if case["where"]:
        s += " where " + case["where"]
    return s


def order_text(case):
    if not case["keys"]:
        return ""
    parts = []
    for k in case["keys"]:
        t = str(k["pos"]) if k["pos"] else k["expr"]
        if k["dir"]:
            t += " " + k["dir"]
        parts.append(t)
    return " order by " + ", ".join(parts)


# the clock is an input too: 2024-02-29 12:00, 2024-03-31 12:00, 2023-12-31 23:59:59 UTC, or the real clock
CLOCKS = [None, None, 1709208000, 1711886400, 1704067199]


def run_rows(out, base, q, ncols, tag, cfg=None, clock=None):
    res = runner.run([q], cwd=base, cfg=cfg, clock=clock)
    out.evals += 1
    if res.wall_timeout:
        out.inconclusive = True
        return None
    if res.status != 0 or res.sig is not None or res.err:
        out.add("%s/run-failed" % tag, query=q, status=res.status, signal=res.sig, stderr=res.err[:300])
        return None
    try:
        return runner.rows(res.out, ncols)
    except ValueError as e:
        out.add("%s/list-malformed" % tag, query=q, err=str(e))
        return None


def typed(kt, text):
    """Sort value of one key cell; None when the cell is outside the asserted domain."""
    if kt == "num":
        try:
            v = float(text)
        except ValueError:
            return None
        if v != int(v):
            return None
        return int(v)
    if kt == "date":
        return text
    return text.encode("utf-8", "surrogateescape")


def key_tuple(case, cells):
    """Comparable tuple honouring directions: returns list of (type, value, desc)."""
    out = []
    for k, c in zip(case["keys"], cells):
        v = typed(key_type(k["expr"]), c)
        if v is None:
            return None
        out.append((v, k["dir"] == "desc"))
    return out


def cmp_keys(a, b):
    """-1/0/1 comparing two key tuples under their directions."""
    for (va, desc), (vb, _) in zip(a, b):
        if va == vb:
            continue
        r = -1 if va < vb else 1
        return -r if desc else r
    return 0


def load(case, base, out, tag):
    """Runs the unordered, key and ordered queries. Returns (unordered rows, keymap, ordered rows) or None."""
    cols = case["cols"]
    sel = select_text(case, cols)
    tail = tail_text(case)
    unordered = run_rows(out, base, sel + tail + " into list", 1 + len(cols), tag)
    if unordered is None:
        return None
    kexprs = [k["expr"] for k in case["keys"]]
    if kexprs:
        krows = run_rows(out, base, "select path, " + ", ".join(kexprs) + tail + " into list", 1 + len(kexprs), tag)
        if krows is None:
            return None
        keymap = {r[0]: r[1:] for r in krows}
    else:
        keymap = {r[0]: () for r in unordered}
    return unordered, keymap, sel, tail


def check_sorted(out, case, ordered, keymap, q, tag):
    prev = None
    ok = True
    for r in ordered:
        cells = keymap.get(r[0])
        if cells is None:
            out.add("%s/row-without-key" % tag, query=q, path=r[0])
            return False
        kt = key_tuple(case, cells)
        if kt is None:
            return True   # outside the asserted domain
        if prev is not None:
            c = cmp_keys(prev[0], kt)
            if c > 0:
                # which key position decides?
                pos = 0
                for i, ((va, _), (vb, _)) in enumerate(zip(prev[0], kt)):
                    if va != vb:
                        pos = i
                        break
                k = case["keys"][pos]
                out.add("%s/not-sorted/%s/%s/%s" % (tag, key_type(k["expr"]), k["expr"],
                                                    "desc" if k["dir"] == "desc" else "asc"),
                        query=q, key_position=pos + 1, before=[prev[1], list(keymap[prev[1]])], after=[r[0], list(cells)])
                ok = False
                break
        prev = (kt, r[0])
    return ok


def check(case):
    out = Outcome()
    cdir = runner.new_case_dir()
    base = os.path.join(cdir, "t")
    os.mkdir(base)
    try:
        trees.materialize(base, case["tree"])
        got = load(case, base, out, "C05")
        if got is None:
            return out
        unordered, keymap, sel, tail = got
        q = sel + tail + order_text(case) + " into list"
        ordered = run_rows(out, base, q, 1 + len(case["cols"]), "C05", clock=case.get("clock"))
        if ordered is None:
            return out
        cu, co = collections.Counter(unordered), collections.Counter(ordered)
        if cu != co:
            out.add("C05/not-a-permutation", query=q, lost=[list(r) for r in (cu - co)][:5],
                    invented=[list(r) for r in (co - cu)][:5])
        check_sorted(out, case, ordered, keymap, q, "C05")
        # classification
        first = [keymap[r[0]][0] for r in ordered if r[0] in keymap] if case["keys"] else []
        tie = len(set(first)) < len(first)
        multi = len(case["keys"]) >= 2 or any(k["dir"] == "desc" for k in case["keys"])
        out.nontrivial = multi and tie and [r[0] for r in ordered] != [r[0] for r in unordered]
        cl = ["keys=%d" % len(case["keys"])]
        for k in case["keys"]:
            cl.append("keytype=" + key_type(k["expr"]))
            if k["dir"] == "desc":
                cl.append("desc")
            if k["pos"]:
                cl.append("positional")
            if k["expr"] not in case["cols"] and k["expr"] != "path":
                cl.append("key-not-selected")
            if " " in k["expr"]:
                cl.append("expression-key")
        if case["where"]:
            cl.append("where")
        if tie:
            cl.append("first-key-tie")
        k0 = case["keys"][0]["expr"] if case["keys"] else None
        if k0 and key_type(k0) == "num":
            try:
                nums = sorted({int(float(x)) for x in first})
                if sorted(map(str, nums)) != list(map(str, nums)):
                    cl.append("numeric-order-differs-from-string-order")
            except ValueError:
                pass
        if case.get("clock"):
            cl.append("clock-pinned")
        out.classes = sorted(set(cl))
        out.sample = {"query": q, "rows": len(ordered), "first_keys": first[:5]}
    finally:
        runner.rmtree(cdir)
    return out


def _tree():
    t = {"f9": {"t": "f", "c": "x" * 9, "mtime": 1577836800}, "f10": {"t": "f", "c": "x" * 10, "mtime": 1577836801},
         "f100": {"t": "f", "c": "x" * 100, "mtime": 1577836800}, "f1000": {"t": "f", "c": "x" * 1000, "mtime": 1500000000},
         "g10": {"t": "f", "c": "y" * 10, "mtime": 1577836800},
         "many": {"t": "d", "ch": {"s%02d" % i: {"t": "d", "ch": {}} for i in range(11)}},
         "sub": {"t": "d", "ch": {"f9": {"t": "f", "c": "z" * 9, "mtime": 1577836801}}}}
    return t


def _k(expr, d="", pos=None):
    return {"expr": expr, "dir": d, "pos": pos}


PINNED = [
    ("size-desc-name", {"tree": _tree(), "cols": ["name", "size"], "where": None, "keys": [_k("size", "desc"), _k("name")], "mode": None}),
    ("hardlinks-numeric", {"tree": _tree(), "cols": ["hardlinks"], "where": None, "keys": [_k("hardlinks")], "mode": None}),
    ("expr-desc-no-where", {"tree": _tree(), "cols": ["size"], "where": None, "keys": [_k("size + 1", "desc")], "mode": None}),
    ("expr-desc-with-where", {"tree": _tree(), "cols": ["size"], "where": "is_file = true", "keys": [_k("size + 1", "desc")], "mode": None}),
    ("positional-desc", {"tree": _tree(), "cols": ["name", "size"], "where": None, "keys": [_k("size", "desc", 3), _k("name", "desc", 2)], "mode": "dfs"}),
    ("date-then-size", {"tree": _tree(), "cols": ["modified"], "where": None, "keys": [_k("modified"), _k("size", "desc")], "mode": None}),
    ("date-key-on-feb-29", {"tree": _tree(), "cols": ["modified"], "where": None, "keys": [_k("modified", "desc")], "mode": None, "clock": 1709208000}),
]
