"""C03 AND / OR / NOT and brackets obey Boolean algebra over the result sets (DESIGN.md 4, C03)."""
import itertools
import os

from hypothesis import strategies as st

from .. import lang, model, runner, trees
from ..engine import Outcome, canon
from . import c02

ID = "C03"
LEVEL = "exploration"
RULE = ("formulas over three atoms (atoms of every operator kind, generated as in C02) on a truth-table tree that "
        "realises all 8 assignments plus boundary entries (and on generated attribute trees): S(formula) must equal "
        "the set-algebra combination (intersection, union, complement w.r.t. the unfiltered listing) of fselect's own "
        "S(atom) results; infix `not like` / `not between` must be the complement of the positive form. All shapes with "
        "<= 2 binary connectives x {and,or} x leaf assignments x every placement of `not` are enumerated exhaustively "
        "(thorough: 3 connectives with <= 2 nots); random formulas up to nesting depth 5. Non-trivial = (two different "
        "connective kinds or a negated bracketed sub-formula) and result neither empty nor everything; distinct by "
        "(tree, atoms, formula).")
ASSUMPTIONS = [
    "complement is taken relative to the unfiltered listing; atoms only use always-present columns",
    "atom semantics themselves are C02's subject; here S(atom) comes from fselect itself (a model cross-check is reported separately)",
]
EXHAUSTIVE_NOTE = "every formula shape with <= 2 binary connectives over {A,B,C} x {and,or} x every placement of `not`, on the truth-table tree"

# ---------------------------------------------------------------- truth-table tree

E0 = 1577923200  # 2020-01-02 00:00:00 UTC


def _fixed_tree():
    spec = {}
    for size in (50, 99, 100, 101, 150):
        for ext in ("txt", "log"):
            for mi, mt in enumerate((E0 - 1, E0, E0 + 86399, E0 + 86400)):
                spec["s%d_%d.%s" % (size, mi, ext)] = {"t": "f", "c": "z" * size, "mtime": mt}
    spec["d100.txt"] = {"t": "d", "ch": {}, "mtime": E0}
    spec["d.log"] = {"t": "d", "ch": {"inner.txt": {"t": "f", "c": "z" * 100, "mtime": E0 - 1}}, "mtime": E0 + 86400}
    spec["l.txt"] = {"t": "l", "to": "s100_0.txt"}
    # entries whose `ext` is the empty text: a text column is always present, empty or not
    spec["README"] = {"t": "f", "c": "z" * 100, "mtime": E0}
    spec["Makefile"] = {"t": "f", "c": "z" * 50, "mtime": E0 - 1}
    spec["plain"] = {"t": "d", "ch": {}, "mtime": E0 + 86399}
    return spec


FIXED = _fixed_tree()

FIXED_ATOMS = [
    {"kind": "num", "col": "size", "op": ">=", "lit": "100", "v": 100},
    {"kind": "num", "col": "size", "op": ">", "lit": "100", "v": 100},
    {"kind": "num", "col": "size", "op": "<", "lit": "100", "v": 100},
    {"kind": "num", "col": "size", "op": "<=", "lit": "100", "v": 100},
    {"kind": "num", "col": "size", "op": "=", "lit": "100", "v": 100},
    {"kind": "num", "col": "size", "op": "!=", "lit": "100", "v": 100},
    {"kind": "num", "col": "size", "op": "gte", "lit": "100", "v": 100},
    {"kind": "num", "col": "size", "op": "lt", "lit": "101", "v": 101},
    {"kind": "num", "col": "size", "op": "===", "lit": "99", "v": 99},
    {"kind": "between", "col": "size", "op": "between", "lit": "99", "lit2": "101", "v": 99, "v2": 101},
    {"kind": "text", "fam": "like", "col": "name", "op": "like", "lit": "%.txt"},
    {"kind": "text", "fam": "like", "col": "name", "op": "not like", "lit": "%.txt"},
    {"kind": "text", "fam": "eq", "col": "name", "op": "=", "lit": "*.log"},
    {"kind": "text", "fam": "eq", "col": "ext", "op": "!=", "lit": "txt"},
    {"kind": "text", "fam": "rx", "col": "name", "op": "=~", "lit": "\\.txt$"},
    {"kind": "text", "fam": "rx", "col": "name", "op": "!=~", "lit": "^s1"},
    {"kind": "text", "fam": "strict", "col": "ext", "op": "===", "lit": "log"},
    {"kind": "text", "fam": "strict", "col": "ext", "op": "!==", "lit": "log"},
    {"kind": "bool", "col": "is_file", "op": "bare", "lit": ""},
    {"kind": "bool", "col": "is_dir", "op": "=", "lit": "false"},
    {"kind": "date", "col": "modified", "op": "<", "lit": "2020-01-02", "quoted": True},
    {"kind": "date", "col": "modified", "op": ">", "lit": "2020-01-02", "quoted": True},
    {"kind": "date", "col": "modified", "op": ">=", "lit": "2020-01-02", "quoted": False},
    {"kind": "date", "col": "modified", "op": "<=", "lit": "2020-01-02 00:00:00", "quoted": True},
    {"kind": "date", "col": "modified", "op": "=", "lit": "2020-01-02", "quoted": True},
    {"kind": "date", "col": "modified", "op": "!=", "lit": "2020-01-02", "quoted": True},
    {"kind": "datebetween", "col": "modified", "op": "between", "lit": "2020-01-02", "lit2": "2020-01-02"},
    # strict comparisons whose literal would mean something else under plain equality (wildcard, date interval)
    {"kind": "text", "fam": "strict", "col": "name", "op": "===", "lit": "*.log"},
    {"kind": "text", "fam": "strict", "col": "name", "op": "!==", "lit": "s1*"},
    {"kind": "text", "fam": "strict", "col": "name", "op": "!==", "lit": "s?00_1.log"},
    {"kind": "date", "col": "modified", "op": "===", "lit": "2020-01-02", "quoted": True},
    {"kind": "date", "col": "modified", "op": "!==", "lit": "2020-01-02", "quoted": True},
    # operators applied to a column of another kind: whatever such a condition means, `not` must complement it
    {"kind": "text", "fam": "order", "col": "name", "op": ">", "lit": "m"},
    {"kind": "text", "fam": "order", "col": "name", "op": "<=", "lit": "s100"},
    {"kind": "text", "fam": "order", "col": "ext", "op": ">=", "lit": "log"},
    {"kind": "text", "fam": "order", "col": "ext", "op": "<", "lit": "m"},
    {"kind": "text", "fam": "order", "col": "ext", "op": "lte", "lit": "txt"},
    {"kind": "text", "fam": "order", "col": "lower(ext)", "op": ">", "lit": "log"},
    {"kind": "between", "col": "ext", "op": "between", "lit": "a", "lit2": "m"},
    {"kind": "datebetween", "col": "upper(ext)", "op": "between", "lit": "LOG", "lit2": "TXT"},   # (quoted bounds)
    {"kind": "text", "fam": "pattern-on-number", "col": "size", "op": "like", "lit": "1%"},
    {"kind": "text", "fam": "pattern-on-number", "col": "size", "op": "not like", "lit": "1%"},
    {"kind": "text", "fam": "pattern-on-number", "col": "size", "op": "=~", "lit": "^1"},
    {"kind": "text", "fam": "pattern-on-number", "col": "hardlinks", "op": "!=~", "lit": "1"},
    {"kind": "text", "fam": "pattern-on-number", "col": "modified", "op": "like", "lit": "2020-01-02%"},
    {"kind": "text", "fam": "pattern-on-number", "col": "is_file", "op": "like", "lit": "t%"},
    # a number or a date compared with ANOTHER always-present column whose value is neither: the condition may mean
    # little, but it and its negation still divide the entries between them
    {"kind": "colcol", "col": "size", "op": ">", "lit": "name"},
    {"kind": "colcol", "col": "size", "op": "<=", "lit": "name"},
    {"kind": "colcol", "col": "size", "op": ">=", "lit": "path"},   # (not `ext`: an empty text on the right is "no value", by design on neither side)
    {"kind": "colcol", "col": "modified", "op": ">=", "lit": "name"},
    {"kind": "colcol", "col": "modified", "op": "<", "lit": "path"},
    {"kind": "colcol", "col": "length(name)", "op": ">", "lit": "name"},
    {"kind": "colcol", "col": "hardlinks", "op": "=", "lit": "name"},
]
# the same literal text under three operator families (glob, LIKE, regex) - each compiles to a different matcher
SHARED = [
    [{"kind": "text", "fam": "eq", "col": "name", "op": "=", "lit": lit},
     {"kind": "text", "fam": "like", "col": "name", "op": "like", "lit": lit},
     {"kind": "text", "fam": "rx", "col": "name", "op": "=~", "lit": lit}]
    for lit in ["s1*", "s100_0.txt", "s?00_1.log", "%.txt", "s50_..txt", "d.log", "s1_0"]
]
ABC = [FIXED_ATOMS[0], FIXED_ATOMS[10], FIXED_ATOMS[20]]   # size >= 100, name like %.txt, modified < 2020-01-02


def examples(tier):
    return 2800 if tier == "quick" else 42000


# ---------------------------------------------------------------- formulas

def _formula(depth):
    leaf = st.sampled_from([["a", 0], ["a", 1], ["a", 2]])
    if depth <= 0:
        return leaf
    sub = _formula(depth - 1)
    return st.sampled_from(["a", "n", "&", "|", "&", "|", "p"]).flatmap(
        lambda k: leaf if k == "a" else sub.map(lambda f: ["n", f]) if k == "n" else
        sub.map(lambda f: ["p", f]) if k == "p" else st.tuples(sub, sub).map(lambda t: [k, t[0], t[1]]))


@st.composite
def strategy_(draw, tier):
    fixed = draw(st.sampled_from([True, True, False]))
    if fixed:
        tree = None
        if draw(st.sampled_from(range(5))) == 0:
            atoms = list(draw(st.permutations(draw(st.sampled_from(SHARED)))))
        else:
            atoms = draw(st.lists(st.sampled_from(FIXED_ATOMS), min_size=3, max_size=3))
    else:
        tree = trees.attr_tree(draw, sizes=(8, 12, 16, 20))
        vals = c02._spec_values(tree)
        atoms = [draw(c02.atom(*vals)) for _ in range(3)]
        # complement is only claimed for always-present columns: line_count is empty for directories
        atoms = [a for a in atoms if (a["kind"] != "colcol" or a["col"] not in ("name", "ext"))
                 and a["col"] != "line_count"] + [ABC[0]] * 3
        atoms = atoms[:3]
    d = draw(st.sampled_from([1, 2, 3, 4, 5]))
    f = draw(_formula(d))
    if f[0] in ("a", "p"):   # by construction: at least one connective or negation at the top
        k = draw(st.sampled_from(["&", "|", "n", "n&", "n|"]))
        g = draw(_formula(d - 1))
        f = ["n", f] if k == "n" else [k, f, g] if len(k) == 1 else ["n", [k[1], f, g]]
    return {"tree": tree, "atoms": atoms, "formula": f, "curly": draw(st.booleans()), "flat": draw(st.booleans())}


def strategy(tier):
    return strategy_(tier)


PREC = {"|": 1, "&": 2, "n": 3, "a": 4, "p": 4}
WORD = {"|": "or", "&": "and"}


def render(f, atoms, curly=False, parent=0):
    k = f[0]
    o, c = ("{", "}") if curly else ("(", ")")
    if k == "a":
        return c02.render(atoms[f[1]])
    if k == "p":
        return o + render(f[1], atoms, curly, 0) + c
    if k == "n":
        inner = f[1]
        if inner[0] in ("a", "p", "n"):
            return "not " + render(inner, atoms, curly, 3)
        return "not " + o + render(inner, atoms, curly, 0) + c
    s = "%s %s %s" % (render(f[1], atoms, curly, PREC[k]), WORD[k], render(f[2], atoms, curly, PREC[k]))
    if PREC[k] < parent:
        s = o + s + c
    return s


def skeleton(f):
    k = f[0]
    if k == "a":
        return "A"
    if k == "p":
        return "(" + skeleton(f[1]) + ")"
    if k == "n":
        return "not " + (skeleton(f[1]) if f[1][0] in ("a", "p", "n") else "(" + skeleton(f[1]) + ")")
    return skeleton(f[1]) + (" and " if k == "&" else " or ") + skeleton(f[2])


def evalf(f, sets, universe):
    k = f[0]
    if k == "a":
        return sets[f[1]]
    if k == "p":
        return evalf(f[1], sets, universe)
    if k == "n":
        return universe - evalf(f[1], sets, universe)
    l, r = evalf(f[1], sets, universe), evalf(f[2], sets, universe)
    return (l & r) if k == "&" else (l | r)


def shape_info(f):
    kinds, neg_bracket = set(), False
    stack = [f]
    n = 0
    while stack:
        x = stack.pop()
        if x[0] in "&|":
            kinds.add(x[0])
            n += 1
            stack += [x[1], x[2]]
        elif x[0] == "n":
            if x[1][0] in ("&", "|", "p"):
                neg_bracket = True
            stack.append(x[1])
        elif x[0] == "p":
            stack.append(x[1])
    return kinds, neg_bracket, n


# ---------------------------------------------------------------- running

_fixed = {"pid": None, "base": None, "cache": {}}


def fixed_base():
    if _fixed["pid"] != os.getpid() or not _fixed["base"] or not os.path.isdir(_fixed["base"]):
        d = runner.new_case_dir()
        base = os.path.join(d, "t")
        os.mkdir(base)
        trees.materialize(base, FIXED)
        _fixed.update(pid=os.getpid(), base=base, cache={})
    return _fixed["base"]


def query_set(out, base, cond, cache):
    if cache is not None and cond in cache:
        return cache[cond]
    q = "path from . %sinto list" % ("where %s " % cond if cond else "")
    res = runner.run([q], cwd=base)
    out.evals += 1
    if res.wall_timeout:
        out.inconclusive = True
        return None
    if res.status != 0 or res.sig is not None or res.err:
        out.add("C03/run-failed", query=q, status=res.status, signal=res.sig, stderr=res.err[:300])
        return None
    try:
        s = frozenset(r[0] for r in runner.rows(res.out, 1))
    except ValueError as e:
        out.add("C03/list-malformed", query=q, err=str(e))
        return None
    if cache is not None:
        cache[cond] = s
    return s


def check(case):
    out = Outcome()
    cdir = None
    atoms = case["atoms"]
    f = case["formula"]
    try:
        if case["tree"] is None:
            base = fixed_base()
            cache = _fixed["cache"]
        else:
            cdir = runner.new_case_dir()
            base = os.path.join(cdir, "t")
            os.mkdir(base)
            trees.materialize(base, case["tree"])
            cache = {}
        universe = query_set(out, base, "", cache)
        if universe is None:
            return out
        sets = []
        for a in atoms:
            s = query_set(out, base, c02.render(a), cache)
            if s is None:
                return out
            sets.append(s)
            # infix not: complement of the positive form
            if a["kind"] == "text" and a["op"] == "not like":
                pos = dict(a, op="like")
                ps = query_set(out, base, c02.render(pos), cache)
                if ps is not None and s != universe - ps:
                    out.add("C03/infix-not-like", atom=c02.render(a), extra=sorted(s - (universe - ps))[:5],
                            missing=sorted((universe - ps) - s)[:5])
            if a["kind"] in ("between", "datebetween"):
                q = lang.quote if a["kind"] == "datebetween" else (lambda x: x)
                neg = "%s not between %s and %s" % (a["col"], q(a["lit"]), q(a["lit2"]))
                ns = query_set(out, base, neg, cache)
                if ns is not None and ns != universe - s:
                    out.add("C03/infix-not-between", atom=neg, extra=sorted(ns - (universe - s))[:5],
                            missing=sorted((universe - s) - ns)[:5])
        text = render(f, atoms, case.get("curly", False))
        got = query_set(out, base, text, None)
        if got is None:
            return out
        want = evalf(f, sets, universe)
        if got != want:
            kinds, negb, n = shape_info(f)
            if f[0] == "n" and f[1][0] == "a":
                sig = "C03/not-atom/%s/%s" % (atoms[f[1][1]]["kind"], c02.CANON.get(atoms[f[1][1]]["op"], atoms[f[1][1]]["op"]))
            else:
                sk = skeleton(f)
                sig = "C03/formula/" + (sk if len(sk) <= 60 else "depth>3")
            out.add(sig, where=text, extra=sorted(got - want)[:5], missing=sorted(want - got)[:5])
        kinds, negb, n = shape_info(f)
        out.nontrivial = (len(kinds) == 2 or negb) and 0 < len(want) < len(universe)
        out.classes = ["connectives=%d" % min(n, 6)] + (["negated-bracket"] if negb else []) + \
                      (["mixed-and-or"] if len(kinds) == 2 else []) + (["fixed-tree"] if case["tree"] is None else ["generated-tree"]) + \
                      (["curly"] if case.get("curly") else [])
        if 0 < len(want) < len(universe):
            out.classes.append("result-proper-subset")
        out.sample = {"where": text, "universe": len(universe), "result": len(want)}
    finally:
        if cdir:
            runner.rmtree(cdir)
    return out


# ---------------------------------------------------------------- exhaustive enumeration

def _shapes(k):
    """All binary tree shapes with k internal nodes, as nested tuples with None leaves."""
    if k == 0:
        return [None]
    out = []
    for i in range(k):
        for l in _shapes(i):
            for r in _shapes(k - 1 - i):
                out.append((l, r))
    return out


def _instantiate(shape, ops, leaves, nots):
    """Build a formula; ops/leaves/nots are iterators consumed in pre-order."""
    neg = next(nots)
    if shape is None:
        f = ["a", next(leaves)]
    else:
        op = next(ops)
        f = [op, _instantiate(shape[0], ops, leaves, nots), _instantiate(shape[1], ops, leaves, nots)]
    return ["n", f] if neg else f


def enumerate_cases(tier):
    cases = []
    maxk = 2 if tier == "quick" else 3
    idx = 0
    for k in range(0, maxk + 1):
        for shape in _shapes(k):
            for ops in itertools.product("&|", repeat=k):
                for leaves in itertools.product(range(3), repeat=k + 1):
                    nodes = 2 * k + 1
                    for nots in itertools.product([False, True], repeat=nodes):
                        if k == 3 and sum(nots) > 2:
                            continue
                        f = _instantiate(shape, iter(ops), iter(leaves), iter(nots))
                        idx += 1
                        cases.append({"tree": None, "atoms": ABC, "formula": f, "curly": idx % 2 == 1, "flat": False})
    # the same literal under two / three operator families in one formula, in every order
    for triple in SHARED:
        for perm in itertools.permutations(range(3)):
            atoms = [triple[i] for i in perm]
            for f in (["|", ["a", 0], ["a", 1]], ["&", ["a", 0], ["a", 1]], ["|", ["&", ["a", 0], ["a", 1]], ["a", 2]],
                      ["&", ["|", ["a", 0], ["n", ["a", 1]]], ["a", 2]]):
                cases.append({"tree": None, "atoms": atoms, "formula": f, "curly": False, "flat": False})
    # named laws for every operator kind: not A, not not A, De Morgan with each atom as A
    for a in FIXED_ATOMS:
        for b in (FIXED_ATOMS[0], FIXED_ATOMS[10]):
            atoms = [a, b, ABC[2]]
            for f in (["n", ["a", 0]], ["n", ["n", ["a", 0]]], ["n", ["p", ["a", 0]]],
                      ["n", ["&", ["a", 0], ["a", 1]]], ["n", ["|", ["a", 0], ["a", 1]]],
                      ["|", ["a", 0], ["&", ["a", 1], ["a", 2]]], ["&", ["|", ["a", 0], ["a", 1]], ["a", 2]],
                      ["&", ["n", ["a", 0]], ["a", 1]], ["n", ["n", ["n", ["a", 0]]]]):
                cases.append({"tree": None, "atoms": atoms, "formula": f, "curly": False, "flat": False})
    return cases


PINNED = [
    ("not-and", {"tree": None, "atoms": ABC, "formula": ["n", ["&", ["a", 0], ["a", 1]]], "curly": False}),
    ("not-or", {"tree": None, "atoms": ABC, "formula": ["n", ["|", ["a", 0], ["a", 1]]], "curly": True}),
    ("not-gt-boundary", {"tree": None, "atoms": [FIXED_ATOMS[1], ABC[1], ABC[2]], "formula": ["n", ["a", 0]], "curly": False}),
    ("not-gte-boundary", {"tree": None, "atoms": ABC, "formula": ["n", ["a", 0]], "curly": False}),
    ("not-between", {"tree": None, "atoms": [FIXED_ATOMS[9], ABC[1], ABC[2]], "formula": ["a", 0], "curly": False}),
    ("precedence", {"tree": None, "atoms": ABC, "formula": ["|", ["a", 0], ["&", ["a", 1], ["a", 2]]], "curly": False}),
    ("double-not", {"tree": None, "atoms": ABC, "formula": ["n", ["n", ["&", ["a", 0], ["a", 2]]]], "curly": False}),
]
