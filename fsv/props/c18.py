"""C18 Following symlinks finds what is behind them, once, and always terminates (DESIGN.md 4, C18)."""
import collections
import os
import stat

from hypothesis import strategies as st

from .. import runner, trees
from ..engine import Outcome
from . import c01

ID = "C18"
LEVEL = "exploration"
RULE = ("generated trees decorated with symbolic links: targets absolute or relative to the link's own directory (x, ../x, "
        "../../x/y), to files, to directories inside the root, outside the root, to ancestors (cycles), self-links, mutual "
        "pairs, chains, dangling links, optional `maxdepth` 1..4 windows, and links in different directories that carry the same relative text (resolving to "
        "a directory here, a file or nothing there), at depth 1..4; root given as `.`, relative or absolute; bfs/dfs. Everything "
        "runs inside a chroot jail with the tree several levels deep, so a mis-resolved `..` stays bounded. Oracle with "
        "`symlinks`: terminates within the CPU limit; the multiset of real entries (realpath of the row's directory + "
        "name, resolved by an independent resolver) equals the closure model - every entry of every real directory "
        "reachable through sub-directories and directory links exactly once; status 0 and empty stderr when the tree has "
        "no dangling or self-referential link. Without the option the rows equal C01's model. Non-trivial = a link to a "
        "directory is followed and (a cycle, or a relative target from depth >= 2, or a directory reachable both "
        "directly and through a link, or two links with one text of which only one leads to a directory); distinct by canonical JSON of the case.")
ASSUMPTIONS = [
    "which of several paths to a directory is displayed, and exit status / messages with dangling or self-referential links, are not asserted",
    "with a depth window next to `symlinks` the nesting level behind a link is ambiguous (logical level of the link + 1, or the real level of the target): only what both readings agree on is required - every real entry inside the window, and the immediate contents of every directory link that sits inside the window in a link-free directory; nothing outside the closure; nothing twice. mindepth is not combined with `symlinks`",
]

NAMES = ["a", "b", "c", "d1", "e2", "f", "g", "x", "y", "z"]

_jail = {"pid": None, "path": None, "n": 0}


def jail():
    if _jail["pid"] != os.getpid() or not _jail["path"] or not os.path.isdir(_jail["path"]):
        _jail.update(pid=os.getpid(), path=runner.make_jail(lambda j: os.makedirs(j + "/w")), n=0)
    return _jail["path"]


def examples(tier):
    return 8400 if tier == "quick" else 110000


@st.composite
def strategy_(draw, tier):
    leaf = st.sampled_from([{"t": "f", "c": ""}, {"t": "f", "c": "x"}])
    spec = trees.grow(draw, [3, 5, 8, 12, 16], st.sampled_from(NAMES), leaf, dir_ratio=(1, 2), max_depth=4)
    outside = trees.grow(draw, [0, 1, 3], st.sampled_from(NAMES), leaf, dir_ratio=(1, 2), max_depth=2)
    dirs = [()] + trees.dirs_of(spec)
    nlinks = draw(st.sampled_from([1, 2, 3, 4]))
    links = []
    for i in range(nlinks):
        where = draw(st.sampled_from(dirs))
        kind = draw(st.sampled_from(["dir-rel", "dir-rel", "dir-abs", "ancestor", "outside-rel", "outside-abs", "file", "dangling",
                                     "self", "mutual", "chain", "same-text", "same-text", "name-rel",
                                     "self-abs", "mutual-abs", "through-file", "through-file-abs"]))
        links.append({"at": list(where), "name": "L%d" % i, "kind": kind,
                      "pick": draw(st.sampled_from(range(16))), "up": draw(st.sampled_from([1, 1, 2, 3]))})
    return {"tree": spec, "outside": outside, "links": links, "root": draw(st.sampled_from(["dot", "rel", "abs"])),
            "mode": draw(st.sampled_from(["", "bfs", "dfs"])),
            # a depth window next to `symlinks` (half of the cases): see window_requirements()
            "maxdepth": draw(st.sampled_from([None, None, None, None, 1, 2, 3, 4]))}


def strategy(tier):
    return strategy_(tier)


def relpath(frm, to):
    """Relative path text from directory tuple `frm` to path tuple `to` (both relative to the tree root)."""
    i = 0
    while i < len(frm) and i < len(to) and frm[i] == to[i]:
        i += 1
    parts = [".."] * (len(frm) - i) + list(to[i:])
    return "/".join(parts) if parts else "."


def build(case, jroot, inner):
    """Materialise tree + links below jroot/inner ('/w/cN/j/k'); returns list of (link dir tuple, name, target text)."""
    top = jroot + inner
    os.makedirs(top + "/t")
    os.makedirs(top + "/out")
    trees.materialize(top + "/t", case["tree"])
    trees.materialize(top + "/out", case["outside"])
    spec = case["tree"]
    dirs = [()] + trees.dirs_of(spec)
    files = [rel for rel, n, _ in trees.walk(spec) if n["t"] == "f"]
    odirs = trees.dirs_of(case["outside"])
    made = []
    for i, l in enumerate(case["links"]):
        at = tuple(l["at"])
        k = l["kind"]
        pick = l["pick"]
        if k in ("dir-rel", "dir-abs"):
            target = dirs[pick % len(dirs)]
            text = relpath(at, target) if k == "dir-rel" else inner + "/t" + "".join("/" + c for c in target)
        elif k == "ancestor":
            text = "/".join([".."] * min(l["up"], len(at) + 0)) or "."
        elif k in ("outside-rel", "outside-abs"):
            sub = odirs[pick % len(odirs)] if odirs else ()
            if k == "outside-rel":
                text = "/".join([".."] * (len(at) + 1)) + "/out" + "".join("/" + c for c in sub)
            else:
                text = inner + "/out" + "".join("/" + c for c in sub)
        elif k == "file":
            text = relpath(at, files[pick % len(files)]) if files else "nofile"
        elif k == "dangling":
            text = "does/not/exist"
        elif k == "same-text":
            # the very text of the previous link, from another directory: may now be a directory, a file or nothing
            text = made[-1][2] if made else "a"
        elif k == "name-rel":
            text = "/".join([".."] * (l["up"] - 1) + [NAMES[pick % len(NAMES)]])
        elif k == "self":
            text = l["name"]
        elif k == "self-abs":
            text = inner + "/t" + "".join("/" + c for c in at) + "/" + l["name"]
        elif k == "mutual-abs":
            other = case["links"][(i + 1) % len(case["links"])]
            text = inner + "/t" + "".join("/" + c for c in other["at"]) + "/" + other["name"]
        elif k in ("through-file", "through-file-abs"):
            # the way to the target leads through a regular file: no such place (ENOTDIR), nothing unreadable
            if files:
                f = files[pick % len(files)]
                text = (relpath(at, f) if k == "through-file" else inner + "/t" + "".join("/" + c for c in f)) + "/x"
            else:
                text = "nofile/x"
        elif k == "mutual":
            other = case["links"][(i + 1) % len(case["links"])]
            text = relpath(at, tuple(other["at"]) + (other["name"],))
        else:   # chain: link to the previous link
            prev = case["links"][i - 1] if i else l
            text = relpath(at, tuple(prev["at"]) + (prev["name"],))
        p = top + "/t" + "".join("/" + c for c in at) + "/" + l["name"]
        os.symlink(text, p)
        made.append((at, l["name"], text))
    return made


def jresolve(jroot, path, depth=0):
    """realpath of a jail-internal absolute path, or None (dangling / loop). Returns jail-internal text."""
    if depth > 40:
        return None
    parts = [c for c in path.split("/") if c and c != "."]
    cur = ""
    i = 0
    while i < len(parts):
        c = parts[i]
        i += 1
        if c == "..":
            cur = cur.rsplit("/", 1)[0] if cur else ""
            continue
        nxt = cur + "/" + c
        try:
            st_ = os.lstat(jroot + nxt)
        except OSError:
            return None
        if stat.S_ISLNK(st_.st_mode):
            t = os.readlink(jroot + nxt)
            rest = "/".join(parts[i:])
            base = t if t.startswith("/") else cur + "/" + t
            return jresolve(jroot, base + ("/" + rest if rest else ""), depth + 1)
        cur = nxt
    return cur or "/"


def closure(jroot, root_real):
    rows = collections.Counter()
    seen = set()
    queue = [root_real]
    followed = []
    while queue:
        d = queue.pop()
        if d in seen:
            continue
        seen.add(d)
        for name in sorted(os.listdir(jroot + d)):
            rows[(d, name)] += 1
            p = (d if d != "/" else "") + "/" + name
            st_ = os.lstat(jroot + p)
            if stat.S_ISDIR(st_.st_mode):
                queue.append(p)
            elif stat.S_ISLNK(st_.st_mode):
                t = jresolve(jroot, p)
                if t is not None and os.path.isdir(jroot + t) and not os.path.islink(jroot + t):
                    followed.append((p, t))
                    queue.append(t)
    return rows, seen, followed


def window_requirements(jroot, root_real, made, n):
    """Rows that `symlinks maxdepth n` must contain whatever notion of depth applies behind a link:
    (a) every real entry at level <= n below the root (no link needed to reach it);
    (b) the immediate contents of the target of every directory link that itself sits at level < n in a real
        (link-free) directory below the root - the link is inside the window, so are its contents one level down."""
    need = set()
    base = jroot + root_real
    for dp, dn, fn in os.walk(base):
        rel = dp[len(base):].strip("/")
        level = (rel.count("/") + 2) if rel else 1
        if level > n:
            dn[:] = []
            continue
        for name in dn + fn:
            need.add((root_real + ("/" + rel if rel else ""), name))
    for at, name, _text in made:
        if len(at) + 1 < n:
            t = jresolve(jroot, root_real + "".join("/" + c for c in at) + "/" + name)
            if t is not None and os.path.isdir(jroot + t):
                for child in os.listdir(jroot + t):
                    need.add((t, child))
    return need


# ---------------------------------------------------------------- enumerated special shapes

def enumerate_cases(tier):
    cases = []
    for mode in ("", "bfs", "dfs"):
        for target in ("rel", "abs"):
            cases.append({"special": "archive-behind-link", "mode": mode, "target": target})
        # each link's target goes through ANOTHER link (`v` -> .): the textual path of level n holds n links; the kernel
        # resolves at most 40 of them in one lookup
        for n in (12, 39, 45, 60):
            cases.append({"special": "long-link-chain", "mode": mode, "n": n})
        cases.append({"special": "bind-mount", "mode": mode})
        # several `symlinks` roots of ONE query whose walks meet (nesting, a link from one into the other)
        for shape in ("nested-inner-first", "nested-outer-first", "link-into-other-root", "link-chain-into-other-root"):
            cases.append({"special": "roots-overlap", "mode": mode, "shape": shape})
    return cases


def _zip(path, names):
    import zipfile
    with zipfile.ZipFile(path, "w") as z:
        for n in names:
            z.writestr(n, "x")


def check_special(case):
    """A shape is reported only when it fails three times out of three, each time on a freshly built tree: path lookups
    through dozens of symbolic links are at the mercy of the kernel (its count of followed links is not reset when a
    lookup is restarted, so under memory pressure ELOOP can arrive early) - seen twice while 20 compilers were running
    next to the check, never on a quiet machine. A defect in fselect fails every time."""
    first = check_special_once(case)
    if not first.discs:
        return first
    sigs = {d.sig for d in first.discs}
    for _ in range(2):
        again = check_special_once(case)
        first.evals += again.evals
        if {d.sig for d in again.discs} != sigs:
            first.discs = []
            first.inconclusive = True
            first.classes = list(first.classes) + ["special-not-reproducible"]
            return first
    return first


def check_special_once(case):
    out = Outcome()
    cdir = runner.new_case_dir()
    base = os.path.join(cdir, "w")
    os.makedirs(base + "/root")
    os.makedirs(base + "/out")
    opts = (" " + case["mode"]) if case["mode"] else ""
    kind = case["special"]
    try:
        wrap = None
        if kind == "archive-behind-link":
            # without `symlinks` no row comes from behind a link - not from an archive behind it either
            _zip(base + "/out/a.zip", ["m1.txt", "d/m2.txt"])
            _zip(base + "/root/in.zip", ["own.txt"])
            os.symlink("../out/a.zip" if case["target"] == "rel" else base + "/out/a.zip", base + "/root/l.zip")
            q = "path from root archives%s into list" % opts
            want = collections.Counter(["root/l.zip", "root/in.zip", "[root/in.zip] own.txt"])
        elif kind == "long-link-chain":
            n = case["n"]
            os.symlink(".", base + "/out/v")
            os.symlink("../out/v/d1", base + "/root/start")
            for i in range(1, n + 1):
                os.mkdir(base + "/out/d%d" % i)
                open(base + "/out/d%d/f%d" % (i, i), "w").close()
                if i < n:
                    os.symlink("../v/d%d" % (i + 1), base + "/out/d%d/n" % i)
            q = "name from root symlinks%s where name like 'f%%' into list" % opts
            want = collections.Counter("f%d" % i for i in range(1, n + 1))
        elif kind == "roots-overlap":
            # every distinct real directory is traversed at most once per QUERY, not per root
            os.makedirs(base + "/root/sub/deep")
            os.makedirs(base + "/out/dd")
            for f in ("root/f1", "root/sub/f2", "root/sub/deep/f3", "out/f4", "out/dd/f5"):
                open(base + "/" + f, "w").close()
            shape = case["shape"]
            if shape.startswith("nested"):
                roots = ["root/sub", "root"] if shape == "nested-inner-first" else ["root", "root/sub"]
                names = ["f1", "f2", "f3"]
            else:
                if shape == "link-into-other-root":
                    os.symlink("../out", base + "/root/l")
                else:
                    os.symlink("../../out/dd", base + "/root/sub/l1")
                    os.symlink("..", base + "/out/dd/up")
                roots = ["root", "out"]
                names = ["f1", "f2", "f3", "f4", "f5"]
            q = "name from %s where name like 'f%%' into list" % ", ".join(r + " symlinks" + opts for r in roots)
            want = collections.Counter(names)
        else:
            # one real directory visible under two paths (a bind mount), reached physically and through links
            os.makedirs(base + "/root/d")
            os.makedirs(base + "/root/bm")
            os.makedirs(base + "/root/z")
            open(base + "/root/d/f", "w").close()
            os.symlink("../d", base + "/root/z/l1")
            os.symlink("../bm", base + "/root/z/l2")
            wrap = ["unshare", "-m", "sh", "-c", 'set -e\nmount --bind "$1/root/d" "$1/root/bm"\ncd "$1"; shift; exec "$@"', "sh", base]
            q = "name from root symlinks%s where name = f into list" % opts
            want = collections.Counter(["f"])
        res = runner.run([q], cwd=base, wrap=wrap)
        out.evals += 1
        if res.wall_timeout:
            out.inconclusive = True
            return out
        if wrap and (b"unshare" in res.err or b"mount:" in res.err):
            out.classes = ["mounts-unavailable"]
            return out
        if res.cpu_timeout:
            out.add("C18/does-not-terminate", query=q, special=kind)
            return out
        if res.sig is not None or res.status != 0 or res.err:
            out.add("C18/special/%s/status-not-clean" % kind, query=q, status=res.status, signal=res.sig, stderr=res.err[:300])
            return out
        got = collections.Counter(r[0] for r in runner.rows(res.out, 1))
        if got != want:
            lost, extra = sorted((want - got).elements()), sorted((got - want).elements())
            what = "rows-from-behind-a-link" if kind == "archive-behind-link" and extra else \
                "listed-twice" if any(c > 1 for c in got.values()) else "not-listed"
            out.add("C18/special/%s/%s" % (kind, what), query=q, lost=lost[:6], extra=extra[:6], n=case.get("n"))
        out.nontrivial = True
        out.nt_keys = ["%s|%s|%s|%s" % (kind, case["mode"], case.get("n") or case.get("shape"), case.get("target"))]
        out.classes = ["special=" + kind, "mode=" + (case["mode"] or "default")]
        out.sample = {"query": q, "rows": sum(got.values())}
    finally:
        runner.rmtree(cdir)
    return out


def check(case):
    if "special" in case:
        return check_special(case)
    out = Outcome()
    j = jail()
    _jail["n"] += 1
    inner = "/w/c%d/j/k" % _jail["n"]
    try:
        made = build(case, j, inner)
        cwd = inner + "/t" if case["root"] == "dot" else inner
        root_text = {"dot": ".", "rel": "t", "abs": inner + "/t"}[case["root"]]
        opts = (" " + case["mode"]) if case["mode"] else ""
        window = case.get("maxdepth")
        # --- with symlinks
        q = "path from %s symlinks%s%s into list" % (root_text, " maxdepth %d" % window if window else "", opts)
        res = runner.run_jailed(j, [q], cwd=cwd)
        out.evals += 1
        if res.wall_timeout:
            out.inconclusive = True
            return out
        want, seen, followed = closure(j, inner + "/t")
        kinds = {m[2] for m in made}
        if res.cpu_timeout:
            out.add("C18/does-not-terminate", query=q, links=made)
            return out
        if res.sig is not None or res.status not in (0, 1) or b"panicked at" in res.err:
            out.add("C18/abnormal-exit", query=q, status=res.status, signal=res.sig, stderr=res.err[:300], links=made)
            return out
        rows = [r[0] for r in runner.rows(res.out, 1)]
        got = collections.Counter()
        unresolved = []
        for p in rows:
            ap = p if p.startswith("/") else cwd + "/" + p
            d, name = ap.rsplit("/", 1)
            rd = jresolve(j, d)
            if rd is None:
                unresolved.append(p)
                continue
            got[(rd, name)] += 1
        if unresolved:
            out.add("C18/row-path-does-not-resolve", query=q, rows=unresolved[:5], links=made)
        twice = [k for k, c in got.items() if c > 1]
        if window:
            need = window_requirements(j, inner + "/t", made, window)
            missing = sorted(k for k in need if k not in got)
            out.classes.append("depth-window")
            if any(k[0] != inner + "/t" and not k[0].startswith(inner + "/t/") for k in need):
                out.classes.append("depth-window/link-leads-outside")
        else:
            missing = [k for k in want if k not in got]
        extra = [k for k in got if k not in want]
        if twice:
            out.add("C18/listed-twice", query=q, entries=["%s/%s" % k for k in twice][:6], links=made, rows=rows[:40])
        if missing:
            reason = "relative-target" if any(not m[2].startswith("/") for m in made) else "absolute-target"
            out.add("C18/not-listed/" + reason, query=q, entries=["%s/%s" % k for k in missing][:6], links=made, stderr=res.err[:300])
        if extra:
            out.add("C18/rows-from-outside-the-closure", query=q, entries=["%s/%s" % k for k in extra][:6], links=made)
        bad_links = any(l["kind"] in ("dangling", "self", "mutual", "self-abs", "mutual-abs", "through-file", "through-file-abs")
                        for l in case["links"]) or \
            any(jresolve(j, inner + "/t" + "".join("/" + c for c in m[0]) + "/" + m[1]) is None for m in made)
        # "the exit status stays 0 when nothing is unreadable": a dangling link, a self-link or a mutual pair is not
        # something unreadable (nothing in these trees is: the search runs as root)
        if res.status != 0 or res.err:
            out.add("C18/status-not-clean" + ("/dangling-or-looping-link" if bad_links else ""), query=q, status=res.status,
                    stderr=res.err[:300], links=made)
        # --- without symlinks: C01's model
        q2 = "path from %s%s into list" % (root_text, opts)
        res2 = runner.run_jailed(j, [q2], cwd=cwd)
        out.evals += 1
        if res2.status != 0 or res2.err:
            out.add("C18/no-option/status", query=q2, status=res2.status, stderr=res2.err[:300])
        else:
            plain = collections.Counter(r[0] for r in runner.rows(res2.out, 1))
            exp = collections.Counter()
            for dp, dn, fn in os.walk(j + inner + "/t"):
                rel = dp[len(j + inner + "/t"):]
                for n in dn + fn:
                    exp[c01.join(root_text, tuple((rel.strip("/") + "/" + n).strip("/").split("/")))] += 1
            if plain != exp:
                out.add("C18/no-option/rows-differ", query=q2, missing=sorted((exp - plain).elements())[:5],
                        extra=sorted((plain - exp).elements())[:5])
        # classification
        root_real = inner + "/t"
        cyc = any(t == root_real or root_real.startswith(t + "/") or p.startswith(t + "/") for p, t in followed)
        rel_deep = any(l["kind"] in ("dir-rel", "outside-rel", "ancestor", "chain") and len(l["at"]) >= 1 for l in case["links"])
        both = any(t.startswith(root_real) for p, t in followed)
        # links with one text that resolve to different kinds of thing (directory / other / nothing)
        verdicts = collections.defaultdict(set)
        for m in made:
            if not m[2].startswith("/"):
                r = jresolve(j, inner + "/t" + "".join("/" + c for c in m[0]) + "/" + m[1])
                verdicts[m[2]].add("none" if r is None else "dir" if os.path.isdir(j + r) else "other")
        same_text = any(len(v) > 1 and "dir" in v for v in verdicts.values())
        out.nontrivial = bool(followed) and (cyc or rel_deep or both or same_text)
        out.classes = sorted(set(out.classes) | {"links=%d" % len(made), "root=" + case["root"], "mode=" + (case["mode"] or "default")} |
                             {"kind=" + l["kind"] for l in case["links"]} | ({"followed-dir-link"} if followed else set()) |
                             ({"cycle"} if cyc else set()) | ({"dir-reachable-twice"} if both else set()) |
                             ({"same-text-different-kind"} if same_text else set()))
        out.sample = {"query": q, "links": ["%s/%s -> %s" % ("/".join(m[0]), m[1], m[2]) for m in made], "rows": len(rows)}
    finally:
        runner.rmtree(j + "/w/c%d" % _jail["n"])
    return out


_T = {"a": {"t": "d", "ch": {"b": {"t": "d", "ch": {"f": {"t": "f", "c": ""}}}, "g": {"t": "f", "c": ""}}}, "d": {"t": "d", "ch": {"z": {"t": "f", "c": ""}}}}


def _l(at, kind, pick=0, up=1, name="L0"):
    return {"at": at, "name": name, "kind": kind, "pick": pick, "up": up}


PINNED = [
    ("relative-up-from-depth-2", {"tree": _T, "outside": {}, "links": [_l(["a", "b"], "ancestor", up=1)], "root": "dot", "mode": ""}),
    ("relative-sibling-dir-deep", {"tree": _T, "outside": {}, "links": [_l(["a", "b"], "dir-rel", pick=3)], "root": "rel", "mode": "dfs"}),
    ("dir-direct-and-via-link", {"tree": _T, "outside": {}, "links": [_l([], "dir-abs", pick=3)], "root": "dot", "mode": "bfs"}),
    ("link-to-file", {"tree": _T, "outside": {}, "links": [_l([], "file", pick=0)], "root": "abs", "mode": ""}),
    ("outside-and-cycle", {"tree": _T, "outside": {"o": {"t": "d", "ch": {"of": {"t": "f", "c": ""}}}},
                           "links": [_l(["d"], "outside-rel", pick=0), _l(["a"], "ancestor", up=2, name="L1")], "root": "dot", "mode": "dfs"}),
]
