"""C02 WHERE comparisons mean what the documentation says (DESIGN.md 4, C02)."""
import os
import re

from hypothesis import strategies as st

from .. import lang, model, runner, trees
from ..engine import Outcome, canon
from ..refs import dates, glob

ID = "C02"
LEVEL = "exploration"
RULE = ("attribute-rich trees (sizes with ties and unit-scale values, 3 uids/gids, hard links, varied modes, mtimes on "
        "a second-level grid, text with 0..5 newlines, symlinks, nested dirs) x 12 atomic conditions per tree: "
        "`column OP literal` for numeric, text, boolean, date columns with every documented operator spelling "
        "applicable to the type, literals drawn from the tree's own values, their +-1 neighbours, unit spellings "
        "and others; BETWEEN; `column OP column`; quoted literals spelling a column/function name. Oracle: "
        "`path from . where ATOM` must return exactly the entries for which the documented meaning holds on the "
        "lstat-observed attribute. Non-trivial atom = true for some entry and false for another; distinct by "
        "(tree, atom).")
ASSUMPTIONS = [
    "TZ=UTC here (time zones are C13's subject); date literals in the documented YYYY-MM-DD[ HH:MM:SS] form",
    "ordering operators on text/boolean columns, fractional numbers without unit and negative literals are not generated",
    "line_count is asserted on regular files only",
]

NUM_OPS = [["=", "==", "eq"], ["!=", "<>", "ne"], [">", "gt"], [">=", "gte", "ge"], ["<", "lt"], ["<=", "lte", "le"],
           ["===", "eeq"], ["!==", "ene"]]
CANON = {w: g[0] for g in lang.OP_ALIASES for w in g}
BOOL_COLS = ["is_file", "is_dir", "is_symlink", "is_hidden", "is_empty", "user_read", "user_write", "user_exec",
             "user_all", "group_read", "group_write", "group_exec", "group_all", "other_read", "other_write",
             "other_exec", "other_all", "suid", "sgid"]
TRUE_WORDS = ["true", "1", "yes"]
FALSE_WORDS = ["false", "0", "no"]
NUM_COLS = ["size", "size", "size", "uid", "gid", "hardlinks", "line_count", "length(name)"]
TEXT_COLS = ["name", "name", "path", "ext", "dir", "mode"]
# words that spell a column / function, in the user's spelling and in the internal (CamelCase) spelling of the column
RESERVED_LITS = ["size", "name", "mode", "bin", "true", "0", "1", "Name", "Size", "Mode", "Extension", "Path", "Directory", "IsDir"]
UNDOC_OPS = {"eeq", "ene", "notrx", "notlike"}  # documented; recognised or not is C11's subject - symbols used here


def examples(tier):
    return 2800 if tier == "quick" else 42000


def rx_escape(s):
    return re.sub(r"([\\.+*?()|\[\]{}^$])", r"\\\1", s)


def _spec_values(spec):
    sizes, names, exts, mtimes, uids = {4096}, set(), set(), set(), {0}
    for rel, node, lvl in trees.walk(spec):
        names.add(rel[-1])
        e = model.rust_extension(rel[-1])
        if e:
            exts.add(e)
        if node["t"] == "f":
            sizes.add(len(node["c"].encode()) if "c" in node else node.get("size", 0))
            mtimes.add(int(node.get("mtime", 0) // 1))
            uids.add(node.get("uid", 0))
        elif node["t"] == "l":
            sizes.add(len(node["to"]))
        elif node["t"] == "d" and "mtime" in node:
            mtimes.add(int(node["mtime"] // 1))
    return sorted(sizes), sorted(names), sorted(exts), sorted(m for m in mtimes if m), sorted(uids)


def _size_lit(draw, v):
    forms = [str(v)]
    if v and v % 1024 == 0:
        forms += ["%dk" % (v // 1024), "%dkib" % (v // 1024), "%dK" % (v // 1024), "%dKiB" % (v // 1024)]
    if v and v % 1000 == 0:
        forms += ["%dkb" % (v // 1000), "%dKB" % (v // 1000)]
    if v and v % 512 == 0 and v % 1024:
        forms += ["%.1fk" % (v / 1024.0)]
    if v and v % (1024 * 1024) == 0:
        forms += ["%dm" % (v // 1048576), "%dmib" % (v // 1048576)]
    if v and v % 1000000 == 0:
        forms += ["%dmb" % (v // 1000000), "%.1fmb" % (v / 1e6)]
    forms.append("%db" % v)
    return draw(st.sampled_from(forms))


@st.composite
def atom(draw, sizes, names, exts, mtimes, uids, notnum=False):
    kind = draw(st.sampled_from(["num", "num", "num", "between", "text", "text", "text", "bool", "bool", "date",
                                 "date", "colcol", "reserved"]))
    if kind in ("num", "between"):
        col = draw(st.sampled_from(NUM_COLS))
        if col == "size":
            pool = sizes
        elif col in ("uid", "gid"):
            pool = [0, 100, 1000, 65534]
        elif col == "hardlinks":
            pool = [1, 2, 3, 4]
        elif col == "line_count":
            pool = [0, 1, 2, 3, 5]
        else:
            pool = sorted({len(n) for n in names}) or [1]
        v = max(0, draw(st.sampled_from(pool)) + draw(st.sampled_from([-1, 0, 0, 0, 1])))
        if kind == "between":
            v2 = max(0, draw(st.sampled_from(pool)) + draw(st.sampled_from([-1, 0, 0, 1])))
            lo, hi = (v, v2) if draw(st.sampled_from(range(6))) else (max(v, v2) + 1, min(v, v2))
            if lo > hi and draw(st.booleans()):
                lo, hi = hi, lo
            if draw(st.booleans()):
                lo, hi = min(lo, hi), max(lo, hi)
            return {"kind": "between", "col": col, "op": "between", "lit": str(lo), "lit2": str(hi), "v": lo, "v2": hi}
        op = draw(st.sampled_from(draw(st.sampled_from(NUM_OPS))))
        if op in UNDOC_OPS:
            op = CANON[op]
        if notnum and draw(st.sampled_from(range(12))) == 0:
            # a literal that is no number at all on a numeric column
            return {"kind": "num", "col": col, "op": op, "lit": draw(st.sampled_from(["'root'", "'abc'", "'many'", "0x10", "'1_000'", "nan", "'NaN'", "'nan kb'"])), "v": 0, "notnum": True}
        if draw(st.sampled_from(range(5))) == 0:
            # a literal with a fractional part and no unit, between two attribute values: `size > 2.5`, `uid <= 999.5`
            frac = draw(st.sampled_from([".5", ".25", ".75", ".5", ".0"]))
            return {"kind": "num", "col": col, "op": op, "lit": "%d%s" % (v, frac), "v": v + float("0" + frac), "decimal": True}
        lit = _size_lit(draw, v) if col == "size" else str(v)
        return {"kind": "num", "col": col, "op": op, "lit": lit, "v": v}
    if kind == "text":
        col = draw(st.sampled_from(TEXT_COLS))
        if col in ("name",):
            base = draw(st.sampled_from(names or ["a"]))
        elif col == "ext":
            base = draw(st.sampled_from((exts or ["txt"]) + [""]))      # the empty extension is a value like any other
        elif col == "mode":
            base = draw(st.sampled_from(["-rw-r--r--", "drwxr-xr-x", "lrwxrwxrwx", "-rwsr-xr-x", "-rw-------", "-r--r--r--"]))
        elif col == "path":
            base = "./" + draw(st.sampled_from(names or ["a"]))
        else:
            base = draw(st.sampled_from([".", "./src", "./a", "./doc"] + ["./" + n for n in names[:6]]))
        fam = draw(st.sampled_from(["eq", "eq", "strict", "like", "rx"]))
        neg = draw(st.booleans())
        tweak = draw(st.sampled_from(["exact", "exact", "case", "prefix", "suffix", "one", "edit"]))
        lit = base
        if tweak == "case":
            lit = base.swapcase()
        elif tweak == "edit":
            lit = base + "x"
        if fam == "eq":
            op = draw(st.sampled_from(["!=", "<>", "ne"] if neg else ["=", "==", "eq"]))
            if tweak == "prefix" and len(base) > 1:
                lit = base[:max(1, len(base) // 2)] + "*"
            elif tweak == "suffix" and len(base) > 1:
                lit = "*" + base[len(base) // 2:]
            elif tweak == "one" and base:
                lit = "?" + base[1:]
        elif fam == "strict":
            op = "!==" if neg else "==="
            # a wildcard in a strict comparison is just a character: strict and plain equality differ here
            if tweak == "prefix" and len(base) > 1:
                lit = base[:max(1, len(base) // 2)] + "*"
            elif tweak == "one" and base:
                lit = "?" + base[1:]
        elif fam == "like":
            op = draw(st.sampled_from(["notlike", "not like"])) if neg else "like"
            op = "not like" if op == "notlike" else op
            if tweak == "prefix" and len(base) > 1:
                lit = base[:max(1, len(base) // 2)] + "%"
            elif tweak == "suffix" and len(base) > 1:
                lit = "%" + base[len(base) // 2:]
            elif tweak == "one" and base:
                lit = "_" + base[1:]
        else:
            op = draw(st.sampled_from(["!=~", "!~="])) if neg else draw(st.sampled_from(["=~", "~=", "regexp", "rx"]))
            if tweak == "prefix":
                lit = "^" + rx_escape(base[:max(1, len(base) // 2)])
            elif tweak == "suffix":
                lit = rx_escape(base[len(base) // 2:]) + "$"
            else:
                lit = "^" + rx_escape(lit) + "$"
        if all(q in lit for q in "'\"`"):
            lit = "zz"
        if not lit and fam == "rx":
            lit = "zz"            # an empty regular expression matches everything: not an interesting atom
        return {"kind": "text", "fam": fam, "col": col, "op": op, "lit": lit}
    if kind == "bool":
        col = draw(st.sampled_from(BOOL_COLS))
        if draw(st.sampled_from(range(4))) == 0:
            return {"kind": "bool", "col": col, "op": "bare", "lit": ""}
        op = draw(st.sampled_from(["=", "==", "eq", "!=", "<>", "ne"]))
        return {"kind": "bool", "col": col, "op": op, "lit": draw(st.sampled_from(TRUE_WORDS + FALSE_WORDS))}
    if kind == "date":
        t = draw(st.sampled_from(mtimes or [1577836800])) + draw(st.sampled_from([-1, 0, 0, 1]))
        dt = model.local_dt(t, "UTC")
        prec = draw(st.sampled_from(["day", "day", "second", "minute", "hour"]))
        if prec == "day":
            lit = dt.strftime("%Y-%m-%d")
        elif prec == "hour":
            lit = dt.strftime("%Y-%m-%d %H")
        elif prec == "minute":
            lit = dt.strftime("%Y-%m-%d %H:%M")
        else:
            lit = dt.strftime("%Y-%m-%d %H:%M:%S")
        if draw(st.sampled_from(range(5))) == 0:
            d2 = model.local_dt(draw(st.sampled_from(mtimes or [1577836800])), "UTC").strftime("%Y-%m-%d")
            a, b2 = sorted([dt.strftime("%Y-%m-%d"), d2])
            return {"kind": "datebetween", "col": "modified", "op": "between", "lit": a, "lit2": b2}
        op = draw(st.sampled_from(draw(st.sampled_from(NUM_OPS[:6]))))
        return {"kind": "date", "col": "modified", "op": op, "lit": lit, "quoted": prec != "day" or draw(st.booleans())}
    if kind == "colcol":
        pair = draw(st.sampled_from([("size", "hardlinks"), ("hardlinks", "size"), ("uid", "gid"), ("size", "size"),
                                     ("length(name)", "hardlinks"), ("name", "ext"), ("ext", "name")]))
        if pair[0] in ("name", "ext"):
            op = draw(st.sampled_from(["=", "!=", "===", "!=="]))
        else:
            op = draw(st.sampled_from(draw(st.sampled_from(NUM_OPS[:6]))))
        return {"kind": "colcol", "col": pair[0], "op": op, "lit": pair[1]}
    col = draw(st.sampled_from(["name", "name", "ext", "path", "dir", "mode"]))
    return {"kind": "reserved", "col": col, "op": draw(st.sampled_from(["=", "!=", "===", "!==", "like", "eq"])),
            "lit": draw(st.sampled_from(RESERVED_LITS))}


@st.composite
def strategy_(draw, tier):
    spec = trees.attr_tree(draw)
    vals = _spec_values(spec)
    atoms = [draw(atom(*vals, notnum=True)) for _ in range(12)]
    return {"tree": spec, "atoms": atoms}


def strategy(tier):
    return strategy_(tier)


def render(a):
    k = a["kind"]
    if k in ("between", "datebetween"):
        q = lang.quote if k == "datebetween" else (lambda x: x)
        return "%s between %s and %s" % (a["col"], q(a["lit"]), q(a["lit2"]))
    if k == "bool" and a["op"] == "bare":
        return a["col"]
    if k in ("num", "colcol"):
        return "%s %s %s" % (a["col"], a["op"], a["lit"])
    if k == "bool":
        return "%s %s %s" % (a["col"], a["op"], a["lit"])
    if k == "date":
        return "%s %s %s" % (a["col"], a["op"], lang.quote(a["lit"]) if a["quoted"] else a["lit"])
    return "%s %s %s" % (a["col"], a["op"], lang.quote(a["lit"]))


def num_cmp(op, x, v):
    c = CANON.get(op, op)
    return {"=": x == v, "!=": x != v, ">": x > v, ">=": x >= v, "<": x < v, "<=": x <= v,
            "===": x == v, "!==": x != v}[c]


def num_value(e, col, base):
    if col == "size":
        return e.st.st_size
    if col == "uid":
        return e.st.st_uid
    if col == "gid":
        return e.st.st_gid
    if col == "hardlinks":
        return e.st.st_nlink
    if col == "length(name)":
        return len(e.name)
    if col == "line_count":
        if e.kind != "f":
            return None
        with open(e.abspath, "rb") as f:
            return f.read().count(b"\n")
    raise KeyError(col)


def bool_value(e, col):
    if col == "is_empty":
        if e.kind == "d":
            return len(os.listdir(e.abspath)) == 0
        return e.st.st_size == 0
    return model.column(e, col) == "true"


def text_holds(op, lit, val):
    c = CANON.get(op, op)
    if op == "not like":
        c = "notlike"
    if c in ("=", "!="):
        m = glob.glob_match(lit, val) if glob.is_glob(lit) else lit == val
        return m if c == "=" else not m
    if c in ("===", "!=="):
        return (lit == val) if c == "===" else (lit != val)
    if c in ("like", "notlike"):
        m = glob.like_match(lit, val)
        return m if c == "like" else not m
    m = re.search(lit, val) is not None
    return m if c == "=~" else not m


def holds(e, a, base):
    """True / False / None (don't care) for entry e under atom a."""
    k = a["kind"]
    if k == "num":
        x = num_value(e, a["col"], base)
        if x is None:
            # the entry has no value in this column (line_count of a directory): no number is below -1 or equal to 2
            # (links and special files: whether the count is taken through them is not asserted)
            return (CANON.get(a["op"], a["op"]) in ("!=", "!==")) if e.kind == "d" else None
        return num_cmp(a["op"], x, a["v"])
    if k == "between":
        x = num_value(e, a["col"], base)
        return None if x is None else (a["v"] <= x <= a["v2"])
    if k == "bool":
        x = bool_value(e, a["col"])
        if a["op"] == "bare":
            return x
        want = a["lit"] in TRUE_WORDS
        eq = CANON.get(a["op"], a["op"]) == "="
        return (x == want) if eq else (x != want)
    if k in ("text", "reserved"):
        return text_holds(a["op"], a["lit"], model.column(e, a["col"]))
    if k == "date":
        t = model.local_dt(int(e.st.st_mtime), "UTC")
        iv = dates.interval(a["lit"])
        return dates.holds(CANON.get(a["op"], a["op"]), t, iv[0], iv[1])
    if k == "datebetween":
        t = model.local_dt(int(e.st.st_mtime), "UTC")
        return dates.interval(a["lit"])[0] <= t <= dates.interval(a["lit2"])[1]
    if k == "colcol":
        if a["col"] in ("name", "ext"):
            # two attributes of one entry are compared as they are: a `*` in the right-hand VALUE is no pattern
            l, r = model.column(e, a["col"]), model.column(e, a["lit"])
            return (l == r) if a["op"] in ("=", "===") else (l != r)
        l, r = num_value(e, a["col"], base), num_value(e, a["lit"], base)
        return num_cmp(a["op"], l, r)
    raise KeyError(k)


def sig_of(a, direction):
    k = a["kind"]
    op = a["op"]
    extra = ""
    if k == "num" and a["col"] == "size" and not a["lit"].isdigit():
        extra = "/unit"
    if k == "text":
        extra = "/" + a["fam"]
    return "C02/%s/%s/%s%s/%s" % (k, a["col"], CANON.get(op, op), extra, direction)


def check(case):
    out = Outcome()
    cdir = runner.new_case_dir()
    base = os.path.join(cdir, "t")
    os.mkdir(base)
    nt_keys = []
    try:
        trees.materialize(base, case["tree"])
        ents = model.observe(base, ".")
        tkey = None
        for a in case["atoms"]:
            cond = render(a)
            q = "path from . where %s into list" % cond
            res = runner.run([q], cwd=base)
            out.evals += 1
            if res.wall_timeout:
                out.inconclusive = True
                continue
            if a.get("notnum"):
                # a literal that is no number at all on a numeric column (`uid = 'root'`) is a mistake in the query:
                # it is reported at the first entry it is compared with, and nothing is listed
                want_status = 2 if ents else 0
                if res.sig is not None or res.status != want_status or res.out.strip() or (ents and not res.err.strip()):
                    out.add("C02/notnum/%s/%s" % (a["col"], CANON.get(a["op"], a["op"])), query=q, status=res.status,
                            signal=res.sig, stdout=res.out[:200], stderr=res.err[:300])
                out.classes.append("kind=notnum")
                continue
            if res.status != 0 or res.sig is not None:
                out.add("C02/status/%s/%s" % (a["kind"], a["col"]), query=q, status=res.status, signal=res.sig, stderr=res.err[:300])
                continue
            try:
                got = {r[0] for r in runner.rows(res.out, 1)}
            except ValueError as e:
                out.add("C02/list-malformed", query=q, err=str(e))
                continue
            want, care = set(), set()
            for e in ents:
                h = holds(e, a, base)
                if h is None:
                    continue
                care.add(e.path)
                if h:
                    want.add(e.path)
            got_c = {p for p in got if p in care or p not in {e.path for e in ents}}
            missing = sorted(want - got_c)
            extra = sorted(got_c - want)
            if missing:
                out.add(sig_of(a, "under-select"), query=q, missing=missing[:6], atom=a)
            if extra:
                out.add(sig_of(a, "over-select"), query=q, extra=extra[:6], atom=a)
            out.classes.append("kind=" + a["kind"])
            if want and len(want) < len(care):
                if tkey is None:
                    tkey = canon(case["tree"])
                nt_keys.append(tkey + "|" + cond)
                out.classes.append("nontrivial-atom")
            if a["kind"] == "num" and a.get("decimal"):
                out.classes.append("decimal-literal")
            elif a["kind"] == "num" and not a["lit"].isdigit():
                out.classes.append("unit-literal")
    finally:
        runner.rmtree(cdir)
    out.nt_keys = nt_keys
    out.nontrivial = bool(nt_keys)
    out.sample = {"entries": trees.count(case["tree"]), "atoms": [render(a) for a in case["atoms"]][:6]}
    return out


def _ptree():
    return {
        "size": {"t": "f", "c": "12345", "mtime": 1577836800}, "x.bin": {"t": "f", "c": "y" * 10, "mtime": 1577836801},
        "name": {"t": "f", "c": "", "mode": 0o600, "mtime": 1577923199}, "mode": {"t": "d", "ch": {}, "mtime": 1577923200},
        "b.txt": {"t": "f", "c": "a\nb\n", "mtime": 1577836799}, "big": {"t": "f", "size": 2048, "mtime": 1500000000},
        "ln": {"t": "l", "to": "b.txt"},
    }


def _a(kind, col, op, lit, **kw):
    d = {"kind": kind, "col": col, "op": op, "lit": lit}
    d.update(kw)
    return d


PINNED = [
    ("decimal-literal", {"tree": _ptree(), "atoms": [
        _a("num", "size", "<", "0.5", v=0.5, decimal=True), _a("num", "length(name)", ">", "11.6", v=11.6, decimal=True),
        _a("num", "size", "=", "10.0", v=10.0, decimal=True), _a("num", "hardlinks", ">=", "1.5", v=1.5, decimal=True)]}),
    ("reserved-literals", {"tree": _ptree(), "atoms": [
        _a("reserved", "name", "=", "size"), _a("reserved", "ext", "=", "bin"), _a("reserved", "name", "!=", "name"),
        _a("reserved", "name", "===", "mode"), _a("reserved", "name", "like", "size")]}),
    ("units-and-between", {"tree": _ptree(), "atoms": [
        _a("num", "size", ">=", "2k", v=2048), _a("num", "size", "<", "2kib", v=2048), _a("num", "size", "=", "2048b", v=2048),
        _a("between", "size", "between", "5", lit2="10", v=5, v2=10), _a("between", "size", "between", "10", lit2="5", v=10, v2=5)]}),
    ("date-edges", {"tree": _ptree(), "atoms": [
        _a("date", "modified", "=", "2020-01-01", quoted=False), _a("date", "modified", "<", "2020-01-01", quoted=True),
        _a("date", "modified", ">", "2020-01-01", quoted=True), _a("date", "modified", "<=", "2020-01-01 00:00:00", quoted=True),
        _a("date", "modified", ">=", "2020-01-01 23:59:59", quoted=True),
        _a("datebetween", "modified", "between", "2020-01-01", lit2="2020-01-01")]}),
    ("bool-forms", {"tree": _ptree(), "atoms": [
        _a("bool", "is_dir", "=", "yes"), _a("bool", "is_file", "!=", "1"), _a("bool", "is_symlink", "bare", ""),
        _a("bool", "is_empty", "=", "true"), _a("bool", "user_exec", "eq", "no")]}),
]
