"""C15 Expressions follow arithmetic rules and each column is evaluated on its own (DESIGN.md 4, C15)."""
import math
import os

from hypothesis import strategies as st

from .. import model, runner, trees
from ..engine import Outcome

ID = "C15"
LEVEL = "exploration"
RULE = ("expression ASTs (depth <= 4) over integer literals, size, hardlinks, length(name), abs/least/greatest/power, "
        "+ - * / % (symbols and word aliases), brackets and unary minus; select lists of 1..5 expressions that include "
        "confusable neighbours (one operator / bracket placement / operand order / later function argument changed). "
        "Oracles: f64 reference evaluator (rel. 1e-12); metamorphic independence (same cell alone, in company, in "
        "reversed order); WHERE `e OP c` against the entry's own printed value. Non-trivial = the expression has two "
        "operators of different precedence, a value-changing bracket or a unary minus on a column, or the select list "
        "holds a confusable pair whose values differ on the tree; distinct by canonical JSON of (expressions, tree).")
ASSUMPTIONS = [
    "division by zero, |values| > 2^50 and string operands are not generated / not asserted",
    "operators are rendered with surrounding spaces (other spellings are C11's subject)",
    "unary minus is generated on numbers and columns only (the statement names those two)",
]

WORDS = {"+": "plus", "-": "minus", "*": "mul", "/": "div", "%": "mod"}
PREC = {"+": 1, "-": 1, "*": 2, "/": 2, "%": 2}
BIG = float(2 ** 50)


class Skip(Exception):
    pass


# ---------------------------------------------------------------- AST: generation

_int = st.sampled_from(range(0, 21)).map(lambda n: ["int", n])
_posint = st.sampled_from(range(1, 21)).map(lambda n: ["int", n])
_col = st.sampled_from([["col", "size"], ["col", "hardlinks"], ["len"]])


def _atom():
    return st.one_of(_int, _col, _col,
                     st.one_of(_posint, _col).map(lambda a: ["neg", a]))


def _expr(depth):
    if depth <= 0:
        return _atom()
    sub = _expr(depth - 1)
    divisor = st.one_of(_posint, _col)
    binop = st.one_of(
        st.tuples(st.sampled_from(["+", "-", "*"]), sub, sub, st.booleans()),
        st.tuples(st.sampled_from(["/", "%"]), sub, divisor, st.booleans()),
    ).map(lambda t: ["bin", t[0], t[1], t[2], t[3]])
    call = st.one_of(
        sub.map(lambda a: ["call", "abs", [a]]),
        st.tuples(st.sampled_from(["least", "greatest"]), st.lists(sub, min_size=2, max_size=3)).map(
            lambda t: ["call", t[0], t[1]]),
        st.tuples(sub, st.sampled_from([0, 1, 2, 3])).map(lambda t: ["call", "power", [t[0], ["int", t[1]]]]),
    )
    return st.sampled_from(["bin", "bin", "bin", "bin", "call", "atom"]).flatmap(
        lambda k: binop if k == "bin" else call if k == "call" else _atom())


def neighbours(e):
    """Confusable neighbours of an expression (same text up to one operator, bracket, order or later arg)."""
    out = []
    if e[0] == "bin":
        op, l, r, w = e[1], e[2], e[3], e[4]
        for op2 in {"+": "-", "-": "+", "*": "+", "/": "*", "%": "*"}[op]:
            out.append(["bin", op2, l, r, w])
        if op in "+-*":
            out.append(["bin", op, r, l, w])
        # bracket placement: (a op1 b) op2 c  <->  a op1 (b op2 c)
        if l[0] == "bin" and r[0] != "bin":
            out.append(["bin", l[1], l[2], ["bin", op, l[3], r, w], l[4]])
        if r[0] == "bin" and op in "+-*" and r[1] in "+-*":
            out.append(["bin", r[1], ["bin", op, l, r[2], w], r[3], r[4]])
    if e[0] == "call" and len(e[2]) >= 2:
        args = list(e[2])
        last = args[-1]
        args[-1] = ["int", (last[1] + 1) % 4] if e[1] == "power" else ["bin", "+", last, ["int", 1], False]
        out.append(["call", e[1], args])
    if e[0] in ("col", "len"):
        out.append(["neg", e])
        out.append(["bin", "+", e, ["int", 1], False])
        out.append(["bin", "-", e, ["int", 1], False])
    if e[0] == "neg":
        out.append(e[1])
    return out


_sizes = [1, 2, 3, 5, 7, 10, 12, 33, 64, 100, 101, 255, 256, 499]
_fnames = ["a", "bb", "ccc", "dddd.t", "e5", "f.txt", "long-name-here", "x y", "Z"]


@st.composite
def strategy_(draw, tier):
    n = draw(st.sampled_from([3, 4, 5, 6, 8]))
    names = draw(st.lists(st.sampled_from(_fnames), min_size=n, max_size=n, unique=True))
    sizes = draw(st.lists(st.sampled_from(_sizes), min_size=n, max_size=n, unique=True))
    tree = {}
    for nm, sz in zip(names, sizes):
        tree[nm] = {"t": "f", "size": sz}
    if draw(st.booleans()):
        tree["hl"] = {"t": "h", "to": names[0]}
    if draw(st.booleans()):
        tree["dir1"] = {"t": "d", "ch": {"k": {"t": "d", "ch": {}}, "k2": {"t": "d", "ch": {}}}}
    depth = draw(st.sampled_from([1, 2, 2, 3, 3, 4] if tier == "thorough" else [1, 2, 2, 3, 3]))
    k = draw(st.sampled_from([1, 2, 3, 4]))
    exprs = [draw(_expr(depth)) for _ in range(k)]
    # confusable neighbours next to their originals
    extra = []
    for e in exprs:
        nb = neighbours(e)
        if nb and draw(st.booleans()):
            extra.append(draw(st.sampled_from(nb)))
    exprs = (exprs + extra)[:5]
    where = {"e": draw(st.sampled_from(range(len(exprs)))),
             "op": draw(st.sampled_from([">", ">=", "<", "<=", "=", "!="])),
             "pick": draw(st.sampled_from(range(8))), "delta": draw(st.sampled_from([-1, 0, 0, 1]))}
    return {"tree": tree, "exprs": exprs, "where": where}


# a text literal next to columns: its value is the text, whatever the text spells (a column's display name)
LITERALS = ["Name", "Size", "Mode", "Path", "Extension", "Directory", "Modified", "Hardlinks", "name", "Is_dir", "IsDir", "x y"]
LIT_COMPANY = ["name", "size", "mode", "path", "ext", "dir", "modified", "hardlinks", "is_dir"]


# expressions whose texts are easily confused once quotes are dropped: each column must show what it shows alone
CONFUSABLE = [["length('Size')", "length(size)"], ["concat('a, b')", "concat('a', 'b')"], ["length(upper('x'))", "length('Upper(x)')"],
              ["1 + 2", "'1 + 2'"], ["least(size, 1, 2)", "least(size, '1, 2')"], ["upper('Name')", "upper(name)"],
              ["concat_ws(name, 'a', 'b')", "concat_ws(name, 'a, b')"], ["length('Name') + size", "length(name) + size"],
              ["(1 + 2) * 2", "'(1 + 2) * 2'"], ["concat('Size', ': ', size)", "concat(size, ': ', size)"],
              # a quote character inside a literal: the two calls have different arguments
              ["concat(\"a', 'b\")", "concat('a', 'b')"], ["length(\"x') + length('abc\")", "length('x') + length('abc')"],
              ["concat('a', \"b', 'c\")", "concat('a', 'b', 'c')"],
              # a boolean value inside arithmetic, next to the bare boolean and to itself (it counts as 1 / 0 wherever it stands)
              ["is_file", "is_file + 1"], ["kana(name)", "kana(name) + 1"], ["contains('e')", "contains('e') + 1"],
              ["is_file + 1", "is_file - is_file"], ["kana(name) + 1", "kana(name) - kana(name)"], ["is_file * 5", "is_file"],
              ["contains('e') * 2 + 1", "contains('e')"]]
BOOLEAN_PAIRS = ("is_file", "kana(", "contains(")
# two spellings of one value: a leading minus negates its operand also when the operand is a size with a unit
EQUAL_PAIRS = [["0 - fsize", "-fsize + 0"], ["0 - size", "-size + 0"], ["fsize * -1", "-fsize * 1"], ["0 - format_size(size)", "-format_size(size) + 0"]]


@st.composite
def literal_case_(draw):
    if draw(st.sampled_from(range(8))) == 0:
        tree = {nm: {"t": "f", "size": sz} for nm, sz in zip(draw(st.lists(st.sampled_from(_fnames), min_size=2, max_size=3, unique=True)), [4, 123, 1024])}
        return {"kind": "literals", "tree": tree, "equal": list(draw(st.sampled_from(EQUAL_PAIRS)))}
    if draw(st.booleans()):
        pair = list(draw(st.sampled_from(CONFUSABLE)))
        if draw(st.booleans()):
            pair.reverse()
        tree = {nm: {"t": "f", "size": sz} for nm, sz in zip(draw(st.lists(st.sampled_from(_fnames), min_size=2, max_size=3, unique=True)), [4, 12, 7])}
        if any(b in c for c in pair for b in BOOLEAN_PAIRS):
            tree["かな"] = {"t": "f", "c": "three\n"}
            tree["sub"] = {"t": "d", "ch": {}}
        return {"kind": "literals", "tree": tree, "pair": pair, "company": draw(st.lists(st.sampled_from(["size", "mode", "path"]), max_size=2, unique=True))}
    lits = draw(st.lists(st.sampled_from(LITERALS), min_size=1, max_size=3, unique=True))
    comp = draw(st.lists(st.sampled_from(LIT_COMPANY), min_size=1, max_size=4, unique=True))
    wrap = draw(st.sampled_from(["plain", "plain", "upper", "concat", "contains"]))
    tree = {nm: {"t": "f", "c": "the Mode word and Name Size\n"} for nm in draw(st.lists(st.sampled_from(_fnames), min_size=2, max_size=4, unique=True))}
    return {"kind": "literals", "tree": tree, "lits": lits, "company": comp, "wrap": wrap, "first": draw(st.booleans())}


def check_literals(case):
    out = Outcome()
    cdir = runner.new_case_dir()
    base = os.path.join(cdir, "t")
    os.mkdir(base)
    try:
        trees.materialize(base, case["tree"])
        if "equal" in case:
            got, q = run_select(out, base, case["equal"])
            if got is None:
                return out
            for nm, cells in got.items():
                if cells[0] != cells[1]:
                    out.add("C15/leading-minus/two-spellings-differ", query=q, name=nm, cells=list(cells))
                    break
            out.nontrivial = True
            out.classes = ["leading-minus-on-unit-value"]
            out.sample = {"query": q}
            return out
        if "pair" in case:
            cols = case["pair"] + case["company"]
            alone = []
            for c in case["pair"]:
                got, q1 = run_select(out, base, [c])
                if got is None:
                    return out
                alone.append(got)
            both, q = run_select(out, base, cols)
            if both is None:
                return out
            for nm, cells in both.items():
                for i, c in enumerate(case["pair"]):
                    if nm in alone[i] and alone[i][nm][0] != cells[i]:
                        out.add("C15/independence/confusable-texts", query=q, expr=c, name=nm, alone=alone[i][nm][0], in_company=cells[i])
                        return out
            # a WHERE condition on the expression is true exactly for the entries whose displayed value satisfies it
            for i, c in enumerate(case["pair"]):
                if not any(b in c for b in BOOLEAN_PAIRS) or not any(ch in c for ch in "+-*"):
                    continue
                values = sorted({cells[0] for cells in alone[i].values()})
                for v in values:
                    try:
                        float(v)
                    except ValueError:
                        continue
                    qw = "select name from . depth 1 where %s = %s into list" % (c, v)
                    res = runner.run([qw], cwd=base)
                    out.evals += 1
                    if res.wall_timeout:
                        out.inconclusive = True
                        return out
                    if res.status != 0 or res.err:
                        out.add("C15/where/boolean-arithmetic/run-failed", query=qw, status=res.status, stderr=res.err[:200])
                        return out
                    got = {r[0] for r in runner.rows(res.out, 1)}
                    want = {nm for nm, cells in alone[i].items() if cells[0] == v}
                    if got != want:
                        out.add("C15/where/boolean-arithmetic", query=qw, shown=v, extra=sorted(got - want)[:5], missing=sorted(want - got)[:5])
                        return out
            out.nontrivial = True
            out.classes = ["confusable-expression-texts"] + (["boolean-in-arithmetic"] if any(b in c for c in case["pair"] for b in BOOLEAN_PAIRS) else [])
            out.sample = {"query": q}
            return out
        w = case["wrap"]
        def col(l):
            return {"plain": "'%s'", "upper": "upper('%s')", "concat": "concat('%s', '!')", "contains": "contains('%s')"}[w] % l
        def want(l):
            return {"plain": l, "upper": l.upper(), "concat": l + "!", "contains": "true" if l in "the Mode word and Name Size" else "false"}[w]
        lcols = [col(l) for l in case["lits"]]
        cols = (lcols + case["company"]) if case["first"] else (case["company"] + lcols)
        q = "select " + ", ".join(cols) + " from . depth 1 into list"
        res = runner.run([q], cwd=base)
        out.evals += 1
        if res.wall_timeout:
            out.inconclusive = True
            return out
        if res.status != 0 or res.err:
            out.add("C15/literal/run-failed", query=q, status=res.status, stderr=res.err[:200])
            return out
        rows = runner.rows(res.out, len(cols))
        off = 0 if case["first"] else len(case["company"])
        for r in rows:
            for i, l in enumerate(case["lits"]):
                if r[off + i] != want(l):
                    out.add("C15/literal/replaced-by-column-value", query=q, literal=l, cell=r[off + i], want=want(l))
                    return out
        out.nontrivial = any(l.lower() in case["company"] or l in ("Extension", "Directory") for l in case["lits"])
        out.classes = ["literal-next-to-columns", "wrap=" + w]
        out.sample = {"query": q, "rows": len(rows)}
    finally:
        runner.rmtree(cdir)
    return out


def strategy(tier):
    return st.sampled_from(range(10)).flatmap(lambda i: literal_case_() if i == 0 else strategy_(tier))


def examples(tier):
    return 5600 if tier == "quick" else 70000


# ---------------------------------------------------------------- AST: rendering and evaluation

def render(e, parent=0, right=False):
    k = e[0]
    if k == "int":
        return str(e[1])
    if k == "col":
        return e[1]
    if k == "len":
        return "length(name)"
    if k == "neg":
        return "-" + render(e[1], 3)
    if k == "call":
        return "%s(%s)" % (e[1], ", ".join(render(a) for a in e[2]))
    op, l, r, word = e[1], e[2], e[3], e[4]
    p = PREC[op]
    s = "%s %s %s" % (render(l, p, False), WORDS[op] if word else op, render(r, p, True))
    if p < parent or (p == parent and right):
        s = "(" + s + ")"
    return s


def ev(e, ent):
    k = e[0]
    if k == "int":
        v = float(e[1])
    elif k == "col":
        v = float(ent.st.st_size if e[1] == "size" else ent.st.st_nlink)
    elif k == "len":
        v = float(len(ent.name))
    elif k == "neg":
        v = -ev(e[1], ent)
    elif k == "call":
        a = [ev(x, ent) for x in e[2]]
        if e[1] == "abs":
            v = abs(a[0])
        elif e[1] == "least":
            v = min(a)
        elif e[1] == "greatest":
            v = max(a)
        else:
            try:
                v = math.pow(a[0], a[1])
            except (OverflowError, ValueError, ZeroDivisionError):
                raise Skip()
    else:
        op = e[1]
        l, r = ev(e[2], ent), ev(e[3], ent)
        if op == "+":
            v = l + r
        elif op == "-":
            v = l - r
        elif op == "*":
            v = l * r
        else:
            if r == 0:
                raise Skip()
            v = l / r if op == "/" else math.fmod(l, r)
    if v != v or abs(v) > BIG:
        raise Skip()
    return v


def features(e):
    """(set of precedence levels used, has value-changing bracket candidate, has neg on column)."""
    levels, bracket, negcol = set(), False, False
    stack = [(e, 0, False)]
    while stack:
        x, parent, right = stack.pop()
        if x[0] == "bin":
            p = PREC[x[1]]
            levels.add(p)
            if p < parent or (p == parent and right):
                bracket = True
            stack.append((x[2], p, False))
            stack.append((x[3], p, True))
        elif x[0] == "neg":
            if x[1][0] != "int":
                negcol = True
        elif x[0] == "call":
            for a in x[2]:
                stack.append((a, 0, False))
    return levels, bracket, negcol


def close(a, b):
    if a == b:
        return True
    return abs(a - b) <= 1e-12 * max(abs(a), abs(b), 1e-300)


def cmp(op, x, c):
    return {">": x > c, ">=": x >= c, "<": x < c, "<=": x <= c, "=": x == c, "!=": x != c}[op]


def run_select(out, base, cols, where=None):
    q = "select name, " + ", ".join(cols) + " from . depth 1" + (" where " + where if where else "") + " into list"
    res = runner.run([q], cwd=base)
    out.evals += 1
    if res.wall_timeout:
        out.inconclusive = True
        return None, q
    if res.status != 0 or res.sig is not None or res.err:
        out.add("C15/run-failed", query=q, status=res.status, signal=res.sig, stderr=res.err[:300])
        return None, q
    try:
        rows = runner.rows(res.out, 1 + len(cols))
    except ValueError as e:
        out.add("C15/list-malformed", query=q, err=str(e))
        return None, q
    return {r[0]: r[1:] for r in rows}, q


def check(case):
    if case.get("kind") == "literals":
        return check_literals(case)
    out = Outcome()
    exprs = case["exprs"]
    texts = [render(e) for e in exprs]
    cdir = runner.new_case_dir()
    base = os.path.join(cdir, "t")
    os.mkdir(base)
    nt = False
    try:
        trees.materialize(base, case["tree"])
        ents = [e for e in model.observe(base) if e.level == 1]
        # (1) alone: value oracle
        alone = []
        for e, t in zip(exprs, texts):
            got, q = run_select(out, base, [t])
            alone.append(got)
            if got is None:
                continue
            for ent in ents:
                if ent.name not in got:
                    out.add("C15/row-missing", query=q, name=ent.name)
                    continue
                cell = got[ent.name][0]
                try:
                    want = ev(e, ent)
                except Skip:
                    continue
                try:
                    val = float(cell)
                except ValueError:
                    out.add("C15/value/not-a-number", expr=t, name=ent.name, cell=cell, want=want)
                    continue
                if cell.strip() in ("-0", "-0.0"):
                    out.add("C15/value/negative-zero-shown", expr=t, name=ent.name, cell=cell)
                if not close(val, want):
                    lv, br, ng = features(e)
                    why = ("neg-column" if ng and close(abs(val), abs(want)) and val == -want else
                           "memo-or-structure" if (e[0] == "bin" or e[0] == "call") else "other")
                    out.add("C15/value/" + why, expr=t, name=ent.name, size=ent.st.st_size, nlink=ent.st.st_nlink,
                            cell=cell, want=want)
        # (2) independence: in company, and reversed
        if len(exprs) > 1:
            for order, tag in ((list(range(len(exprs))), "together"), (list(reversed(range(len(exprs)))), "reversed")):
                got, q = run_select(out, base, [texts[i] for i in order])
                if got is None:
                    continue
                for pos, i in enumerate(order):
                    if alone[i] is None:
                        continue
                    for ent in ents:
                        a = alone[i].get(ent.name)
                        g = got.get(ent.name)
                        if a is None or g is None:
                            continue
                        if a[0] != g[pos]:
                            out.add("C15/independence/" + tag, query=q, expr=texts[i], name=ent.name,
                                    alone=a[0], in_company=g[pos])
        # (3) WHERE against the entry's own printed value
        w = case["where"]
        i = w["e"]
        # a bare (possibly negated) number is not a condition on an expression: skip `0 > -1`
        bare = exprs[i][0] == "int" or (exprs[i][0] == "neg" and exprs[i][1][0] == "int")
        if alone[i] and not bare:
            vals = []
            for ent in ents:
                try:
                    vals.append(float(alone[i][ent.name][0]))
                except (KeyError, ValueError):
                    vals = None
                    break
            if vals and all(v == v and abs(v) < BIG for v in vals):
                c = sorted(set(vals))[w["pick"] % len(set(vals))] + w["delta"]
                ctext = repr(int(c)) if c == int(c) else repr(c)
                cond = "%s %s %s" % (texts[i], w["op"], ctext)
                got, q = run_select(out, base, ["size"], where=cond)
                if got is not None:
                    want = {ent.name for ent, v in zip(ents, vals) if cmp(w["op"], v, c)}
                    if set(got) != want:
                        out.add("C15/where", query=q, got=sorted(got), want=sorted(want),
                                values={ent.name: v for ent, v in zip(ents, vals)})
                    if want and len(want) < len(ents):
                        out.classes.append("where-splits-entries")
        # non-triviality
        for e in exprs:
            lv, br, ng = features(e)
            if len(lv) == 2 or br or ng:
                nt = True
        for a in range(len(exprs)):
            for bidx in range(a + 1, len(exprs)):
                if exprs[bidx] in neighbours(exprs[a]) or exprs[a] in neighbours(exprs[bidx]):
                    out.classes.append("confusable-pair")
                    try:
                        if any(not close(ev(exprs[a], ent), ev(exprs[bidx], ent)) for ent in ents):
                            nt = True
                            out.classes.append("confusable-pair-differs")
                    except Skip:
                        pass
    finally:
        runner.rmtree(cdir)
    out.nontrivial = nt
    for e in exprs:
        lv, br, ng = features(e)
        if br:
            out.classes.append("bracket-needed")
        if ng:
            out.classes.append("neg-on-column")
        if len(lv) == 2:
            out.classes.append("mixed-precedence")
        if e[0] == "call":
            out.classes.append("call")
    out.classes = sorted(set(out.classes)) + ["exprs=%d" % len(exprs)]
    out.sample = {"select": texts, "where": case["where"], "files": len(case["tree"])}
    return out


def _t():
    return {"a": {"t": "f", "size": 4}, "bb": {"t": "f", "size": 9}, "ccc": {"t": "f", "size": 30}}


_W = {"e": 0, "op": ">", "pick": 1, "delta": 0}
_S, _1, _2, _3, _4 = ["col", "size"], ["int", 1], ["int", 2], ["int", 3], ["int", 4]
PINNED = [
    ("plus-minus-neighbours", {"tree": _t(), "exprs": [["bin", "+", _S, _1, False], ["bin", "-", _S, _1, False]], "where": _W}),
    ("bracket-placement", {"tree": _t(), "exprs": [["bin", "*", ["bin", "+", _2, _3, False], _4, False],
                                                   ["bin", "+", _2, ["bin", "*", _3, _4, False], False]], "where": _W}),
    ("power-later-arg", {"tree": _t(), "exprs": [["call", "power", [_S, _2]], ["call", "power", [_S, _3]]], "where": _W}),
    ("neg-column", {"tree": _t(), "exprs": [["neg", _S], _S], "where": {"e": 0, "op": "<", "pick": 0, "delta": 1}}),
    ("left-assoc", {"tree": _t(), "exprs": [["bin", "-", ["bin", "-", _S, _2, False], _1, False],
                                            ["bin", "-", _S, ["bin", "-", _2, _1, False], False]], "where": _W}),
    ("same-subexpr-in-one", {"tree": _t(), "exprs": [["bin", "*", ["bin", "+", _S, _1, False], ["bin", "-", _S, _1, False], False]], "where": _W}),
    ("word-ops", {"tree": _t(), "exprs": [["bin", "%", ["bin", "*", _S, _3, True], _4, True]], "where": _W}),
]
