"""C08 GROUP BY partitions the matching entries; per-group aggregates are exact (DESIGN.md 4, C08)."""
import collections
import os

from hypothesis import strategies as st

from .. import lang, runner, trees
from ..engine import Outcome
from . import c02, c05, c07

ID = "C08"
LEVEL = "exploration"
RULE = ("attribute trees with 2..8 distinct values per key (incl. the empty extension and entries directly in the "
        "root) x one or two grouping keys from ext, dir, is_dir, mode, uid, length(name) (always selected) x aggregate "
        "lists as in C07, each aggregate plain or inside a scalar function (concat, lower, upper - wrappers the check can strip) x optional WHERE x optional ORDER BY on a key or a plain aggregate - integer or fractional, displayed or not (asc/desc). "
        "Oracle: the ungrouped non-aggregate run gives (key tuple, inner values) per entry; the model partitions by "
        "displayed key text: same set of key tuples, one row per key, per-group aggregates equal the reference, "
        "sum of group COUNTs/SUMs equals the ungrouped aggregate query, a sample of groups is re-obtained with "
        "`where key = 'value'` and no GROUP BY, ORDER BY sorts the group rows (integers numerically, text bytewise). "
        "Non-trivial = (>= 3 groups of which one has >= 2 members) or two grouping keys.")
ASSUMPTIONS = [
    "order of groups without ORDER BY (hash order) is not asserted",
    "restriction queries are only issued for non-empty key values without wildcard characters",
]

KEYS = ["ext", "dir", "is_dir", "mode", "uid", "length(name)", "ext", "is_dir"]
INT_AGGS = ("count", "sum", "min", "max")


def examples(tier):
    return 4200 if tier == "quick" else 56000


@st.composite
def strategy_(draw, tier):
    spec = trees.attr_tree(draw, sizes=(6, 12, 16, 20, 30, 36))
    keys = draw(st.lists(st.sampled_from(KEYS), min_size=1, max_size=draw(st.sampled_from([1, 2, 2])), unique=True))
    w = draw(st.sampled_from(["none", "none", "atom", "files"]))
    where = None
    if w == "atom":
        a = draw(c02.atom(*c02._spec_values(spec)))
        if a["col"] != "line_count":
            where = c02.render(a)
    elif w == "files":
        where = "is_file = true"
    if "ext" in keys and draw(st.sampled_from(range(3))) == 0:
        where = "ext =~ '^[0-9]+$'"        # only extensions that look like numbers (1, 2, 10, 007): still a text key
    aggs = draw(c07.agg_list(w == "files"))
    # an aggregate may sit inside a scalar function (decodable wrappers only): the value must still be the group's
    for a in aggs:
        a["wrap"] = draw(st.sampled_from([None, None, None, "concat-post", "concat-pre", "lower", "upper"]))
    # select list: keys and aggregates interleaved in a drawn order, keys always present
    sel = [("k", i) for i in range(len(keys))] + [("a", i) for i in range(len(aggs))]
    sel = draw(st.permutations(sel))
    order = None
    if draw(st.booleans()):
        cands = [s for s in sel if s[0] == "k" or not aggs[s[1]]["wrap"]]
        if cands:
            item = list(draw(st.sampled_from(cands)))
            order = {"item": item, "desc": draw(st.booleans()), "positional": draw(st.sampled_from([False, False, True]))}
            # "keys need not be selected": an aggregate may be ordered by without being displayed
            # (another aggregate must stay in the select list, otherwise it is no aggregate query any more)
            if item[0] == "a" and sum(1 for x in sel if x[0] == "a") >= 2 and draw(st.sampled_from(range(2))) == 0:
                order["unselected"] = True
                order["positional"] = False
                sel = [x for x in sel if tuple(x) != tuple(item)]
    return {"tree": spec, "keys": keys, "where": where, "aggs": aggs, "sel": [list(s) for s in sel], "order": order}


def strategy(tier):
    return strategy_(tier)


WRAP = {"concat-post": ("concat(%s, '#')", lambda c: c[:-1] if c.endswith("#") else None),
        "concat-pre": ("concat('n=', %s)", lambda c: c[2:] if c.startswith("n=") else None),
        "lower": ("lower(%s)", lambda c: c), "upper": ("upper(%s)", lambda c: c.lower() if "E" in c else c)}


def sel_text(case, item):
    kind, i = item
    if kind == "k":
        return case["keys"][i]
    a = case["aggs"][i]
    t = c07.agg_text(a)
    return WRAP[a["wrap"]][0] % t if a.get("wrap") else t


def key_is_int(k):
    return k in ("uid", "length(name)")


def check(case):
    out = Outcome()
    cdir = runner.new_case_dir()
    base = os.path.join(cdir, "t")
    os.mkdir(base)
    try:
        trees.materialize(base, case["tree"])
        keys, aggs, sel = case["keys"], case["aggs"], case["sel"]
        tail = " from ." + (" where " + case["where"] if case["where"] else "")
        inners = sorted({a["inner"] for a in aggs if a["inner"] != "*"}) or ["size"]
        rows = c05.run_rows(out, base, "select " + ", ".join(keys + inners) + tail + " into list",
                            len(keys) + len(inners), "C08")
        if rows is None:
            return out
        parts = collections.OrderedDict()
        ok_inner = True
        for r in rows:
            kt = tuple(r[:len(keys)])
            try:
                parts.setdefault(kt, []).append([int(x) for x in r[len(keys):]])
            except ValueError:
                ok_inner = False
                parts.setdefault(kt, []).append(None)
        gq = "select " + ", ".join(sel_text(case, s) for s in sel) + tail + " group by " + ", ".join(keys)
        if case["order"]:
            o = case["order"]
            pos = -1 if o.get("unselected") else [tuple(s) for s in sel].index(tuple(o["item"]))
            gq += " order by " + (str(pos + 1) if o["positional"] else sel_text(case, o["item"])) + (" desc" if o["desc"] else "")
        gq += " into list"
        grows = c05.run_rows(out, base, gq, len(sel), "C08")
        if grows is None:
            return out
        kpos = [[tuple(s) for s in sel].index(("k", i)) for i in range(len(keys))]
        got_keys = [tuple(r[p] for p in kpos) for r in grows]
        want_keys = set(parts)
        if len(got_keys) != len(set(got_keys)):
            dup = [k for k, c in collections.Counter(got_keys).items() if c > 1]
            out.add("C08/key-in-two-rows", query=gq, duplicate=[list(k) for k in dup][:5])
        if set(got_keys) != want_keys:
            out.add("C08/key-set-differs", query=gq, missing=[list(k) for k in (want_keys - set(got_keys))][:5],
                    extra=[list(k) for k in (set(got_keys) - want_keys)][:5])
        # per-group aggregates
        if ok_inner:
            for r, kt in zip(grows, got_keys):
                members = parts.get(kt)
                if members is None:
                    continue
                n = len(members)
                for si, s in enumerate(sel):
                    if s[0] != "a":
                        continue
                    a = aggs[s[1]]
                    v = list(range(n)) if a["inner"] == "*" else [m[inners.index(a["inner"])] for m in members]
                    ref = n if a["f"] == "count" else c07.reference(a["f"], v)
                    cell = r[si]
                    if a.get("wrap"):
                        cell = WRAP[a["wrap"]][1](cell)
                        if cell is None:
                            out.add("C08/group-aggregate/wrapper-lost", query=gq, key=list(kt), column=sel_text(case, s), cell=r[si])
                            continue
                    why = c07.compare(a["f"], cell, ref, v)
                    if why:
                        out.add("C08/group-aggregate/%s%s" % (a["f"], "/inside-function" if a.get("wrap") else ""), query=gq,
                                key=list(kt), column=sel_text(case, s),
                                cell=r[si], reference=str(float(ref)) if ref is not None else None, members=n, why=why)
        # the keys need not be displayed: one row per group all the same (`select count(*) ... group by ext`)
        ints_only = [a for a in aggs if a["f"] in INT_AGGS and not a.get("wrap")] or [{"f": "count", "spell": "count", "inner": "*", "upper": False}]
        hq = "select " + ", ".join(c07.agg_text(a) for a in ints_only) + tail + " group by " + ", ".join(keys) + " into list"
        hrows = c05.run_rows(out, base, hq, len(ints_only), "C08")
        if hrows is not None and ok_inner:
            wantrows = collections.Counter()
            for kt, members in parts.items():
                n = len(members)
                cells = []
                for a in ints_only:
                    v = list(range(n)) if a["inner"] == "*" else [m[inners.index(a["inner"])] for m in members]
                    ref = n if a["f"] == "count" else c07.reference(a["f"], v)
                    cells.append(None if ref is None else str(int(ref)))
                wantrows[tuple(cells)] += 1
            if len(hrows) != len(parts):
                out.add("C08/hidden-keys/row-count", query=hq, rows=len(hrows), groups=len(parts))
            elif not any(None in k for k in wantrows) and collections.Counter(hrows) != wantrows:
                out.add("C08/hidden-keys/aggregates", query=hq, got=[list(r) for r in hrows][:6], want=[list(k) for k in wantrows][:6])
            out.classes.append("keys-not-displayed")
        # conservation against the ungrouped aggregate query
        cons = [("count", "*")] + [("sum", i) for i in inners]
        cq = "select " + ", ".join("%s(%s)" % c for c in cons) + tail + " into list"
        crow = c05.run_rows(out, base, cq, len(cons), "C08")
        if crow and len(crow) == 1 and ok_inner:
            gsel = "select " + ", ".join(keys + ["%s(%s)" % c for c in cons]) + tail + " group by " + ", ".join(keys) + " into list"
            g2 = c05.run_rows(out, base, gsel, len(keys) + len(cons), "C08")
            if g2 is not None:
                for j, c in enumerate(cons):
                    try:
                        tot = sum(int(r[len(keys) + j]) for r in g2)
                        if tot != int(crow[0][j]):
                            out.add("C08/conservation/%s" % c[0], grouped_query=gsel, ungrouped_query=cq,
                                    groups_total=tot, ungrouped=crow[0][j])
                    except ValueError:
                        out.add("C08/conservation/not-integer", grouped_query=gsel)
        # restriction: a sample of groups via `where key = 'value'`
        sample = list(parts.items())[:3]
        for kt, members in sample:
            if any(v == "" or any(ch in v for ch in "*?'\"`") for v in kt) or not ok_inner:
                continue
            conds = []
            for k, v in zip(keys, kt):
                conds.append("%s = %s" % (k, v if (key_is_int(k) or k == "is_dir") else lang.quote(v)))
            rcond = " and ".join(conds)
            rtail = " from . where " + ("(" + case["where"] + ") and " if case["where"] else "") + rcond
            ints = [a for a in aggs if a["f"] in INT_AGGS]
            if not ints:
                ints = [{"f": "count", "spell": "count", "inner": "*", "upper": False}]
            rq = "select " + ", ".join(c07.agg_text(a) for a in ints) + rtail + " into list"
            rr = c05.run_rows(out, base, rq, len(ints), "C08")
            if rr is None or len(rr) != 1:
                continue
            for a, cell in zip(ints, rr[0]):
                n = len(members)
                v = list(range(n)) if a["inner"] == "*" else [m[inners.index(a["inner"])] for m in members]
                ref = n if a["f"] == "count" else c07.reference(a["f"], v)
                if c07.compare(a["f"], cell, ref, v):
                    out.add("C08/restriction-differs/%s" % a["f"], restricted_query=rq, cell=cell, reference=str(ref), key=list(kt))
        # ORDER BY over group rows
        if case["order"] and grows:
            o = case["order"]
            item = tuple(o["item"])
            is_key = item[0] == "k"
            is_float = (not is_key) and aggs[item[1]]["f"] not in INT_AGGS
            is_int = (not is_key and not is_float) or (is_key and key_is_int(keys[item[1]]))
            if o.get("unselected"):
                # the ordering value of each group comes from a second grouped query that does display it
                oq = "select " + ", ".join(keys + [c07.agg_text(aggs[item[1]])]) + tail + " group by " + ", ".join(keys) + " into list"
                orows = c05.run_rows(out, base, oq, len(keys) + 1, "C08")
                omap = {tuple(r[:len(keys)]): r[len(keys)] for r in (orows or [])}
                cells = [omap.get(kt) for kt in got_keys]
                out.classes.append("order-by-unselected-aggregate")
            else:
                pos = [tuple(s) for s in sel].index(item)
                cells = [r[pos] for r in grows]
            seq = []
            for c in cells:
                if c is None:
                    seq = None
                    break
                if is_int or is_float:
                    try:
                        seq.append(float(c) if is_float else int(c))
                    except ValueError:
                        seq = None
                        break
                else:
                    seq.append(c.encode("utf-8", "surrogateescape"))
            if is_float:
                out.classes.append("order-by-fractional-aggregate")
            is_int = is_int or is_float
            if seq is not None:
                def sorted_under(vals):
                    return all((vals[i] >= vals[i + 1]) if o["desc"] else (vals[i] <= vals[i + 1]) for i in range(len(vals) - 1))
                ok = sorted_under(seq)
                if not is_int:
                    # a text key is ordered as text, as in a query without GROUP BY - also when its values look like numbers
                    digits = [x.strip().isdigit() for x in seq]
                    if seq and all(digits):
                        out.classes.append("order-by-text-key/all-numeric-looking")
                    elif any(digits):
                        out.classes.append("order-by-text-key/mixed-numeric-looking")
                if not ok:
                    out.add("C08/group-order/%s/%s" % ("int" if is_int else "text", "desc" if o["desc"] else "asc"), query=gq,
                            column=sel_text(case, o["item"]), values=[x.decode("utf-8", "replace") if isinstance(x, bytes) else str(x) for x in seq][:16])
        big = any(len(m) >= 2 for m in parts.values())
        out.nontrivial = (len(parts) >= 3 and big) or len(keys) == 2
        out.classes = sorted({"groups=%s" % ("0" if not parts else "1-2" if len(parts) < 3 else "3-8" if len(parts) <= 8 else "9+"),
                              "keys=%d" % len(keys)} | {"key=" + k for k in keys} |
                             ({"aggregate-inside-function"} if any(a.get("wrap") for a in aggs) else set()) |
                             ({"order-by"} if case["order"] else set()) | ({"where"} if case["where"] else set()) |
                             ({"empty-key-value"} if any("" in k for k in parts) else set()))
        out.sample = {"query": gq, "groups": len(parts), "rows": len(rows)}
    finally:
        runner.rmtree(cdir)
    return out


def _tree():
    return {"a.txt": {"t": "f", "c": "1"}, "b.txt": {"t": "f", "c": "22"}, "c.log": {"t": "f", "c": "333"}, "README": {"t": "f", "c": "4444"},
            "Makefile": {"t": "f", "c": "55555"}, "d": {"t": "d", "ch": {"e.txt": {"t": "f", "c": "666666"}, "f.log": {"t": "f", "c": "7"}}}}


def _a(f, inner):
    return {"f": f, "spell": f, "inner": inner, "upper": False}


PINNED = [
    ("ext-groups", {"tree": _tree(), "keys": ["ext"], "where": "is_file = true", "aggs": [_a("count", "*"), _a("sum", "size"), _a("avg", "size")],
                    "sel": [["k", 0], ["a", 0], ["a", 1], ["a", 2]], "order": {"item": ["a", 1], "desc": True, "positional": False}}),
    ("two-keys", {"tree": _tree(), "keys": ["is_dir", "dir"], "where": None, "aggs": [_a("max", "size"), _a("count", "size")],
                  "sel": [["a", 0], ["k", 1], ["k", 0], ["a", 1]], "order": {"item": ["k", 1], "desc": False, "positional": True}}),
    ("mixed-numeric-looking-keys", {"tree": {"f." + e: {"t": "f", "c": ""} for e in ["2", "10", "1x", "9", "9a", "100", "1", "a", "05", "5z", "50", "007", "7", "70", "7a"]},
                                    "keys": ["ext"], "where": None, "aggs": [_a("count", "*")], "sel": [["k", 0], ["a", 0]],
                                    "order": {"item": ["k", 0], "desc": False, "positional": False}}),
    ("numeric-looking-names", {"tree": {n: {"t": "f", "c": ""} for n in ["1", "2", "9", "10", "100", "01"]}, "keys": ["name"], "where": "is_file = true",
                               "aggs": [_a("count", "*")], "sel": [["k", 0], ["a", 0]], "order": {"item": ["k", 0], "desc": False, "positional": False}}),
    ("mixed-numeric-looking-keys-many", {"tree": {"h%d.%s" % (i, e): {"t": "f", "c": ""} for i in range(1, 41) for e in (str(i), "%dx" % i)},
                                         "keys": ["ext"], "where": None, "aggs": [_a("count", "*")], "sel": [["k", 0], ["a", 0]],
                                         "order": {"item": ["k", 0], "desc": True, "positional": True}}),
]
