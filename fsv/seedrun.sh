#!/bin/bash
# usage: seedrun.sh <seeded-subdir> <PROPERTY> [tier]  - apply a kept seeded change to /repo, run the check, undo.
set -u
d=/verif/seeded/$1; prop=$2; tier=${3:-quick}
cd /repo || exit 2
if [ -n "$(git status --porcelain)" ]; then echo "/repo not clean"; exit 2; fi
git apply "$d/patch.diff" || { echo "patch does not apply"; exit 2; }
cd /verif
python3-vt -m fsv.check "$prop" --tier "$tier" 2>&1 | cut -c1-420 | tail -${4:-4}
rc=${PIPESTATUS[0]}
git -C /repo checkout -- .
echo "check rc=$rc; /repo restored: $(git -C /repo status --porcelain | wc -l) dirty files"
