#!/bin/bash
# usage: seedrun.sh <seeded-subdir> <PROPERTY> [tier]  - apply a kept seeded change to /repo, run the check, undo.
set -u
d=/verif/seeded/$1; prop=$2; tier=${3:-quick}
cd /repo || exit 2
if [ -n "$(git status --porcelain)" ]; then echo "/repo not clean"; exit 2; fi
git apply "$d/patch.diff" || { echo "patch does not apply"; exit 2; }
cd /verif
cp evidence/$prop.json /tmp/.seedrun-evidence-$prop.json 2>/dev/null   # evidence must describe the unchanged tree
python3-vt -m fsv.check "$prop" --tier "$tier" 2>&1 | cut -c1-420 | tail -${4:-4}
rc=${PIPESTATUS[0]}
git -C /repo checkout -- .
[ -f /tmp/.seedrun-evidence-$prop.json ] && mv /tmp/.seedrun-evidence-$prop.json evidence/$prop.json
echo "check rc=$rc; /repo restored: $(git -C /repo status --porcelain | wc -l) dirty files"
python3-vt -m fsv.build >/dev/null 2>&1   # leave /verif/.target holding a build of the restored tree, not of the change
