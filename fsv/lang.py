"""Vocabulary of the fselect query language, transcribed from docs/usage.md and the --help text.

The alias groups are the *documented* ones (C11 quantifies over the documentation's tables)."""
import os
import re

from . import build

# ---- columns: canonical name -> list of documented spellings
COLUMN_ALIASES = [
    ["name"], ["extension", "ext"], ["path"], ["abspath"], ["directory", "dirname", "dir"], ["absdir"],
    ["size"], ["fsize", "hsize"], ["uid"], ["gid"], ["accessed"], ["created"], ["modified"],
    ["is_dir"], ["is_file"], ["is_symlink"], ["is_pipe", "is_fifo"], ["is_char", "is_character"],
    ["is_block"], ["is_socket"], ["is_hidden"], ["has_xattrs"], ["capabilities", "caps"],
    ["device"], ["inode"], ["blocks"], ["hardlinks"], ["mode"], ["user"],
    ["user_read"], ["user_write"], ["user_exec"], ["user_all"], ["group"],
    ["group_read"], ["group_write"], ["group_exec"], ["group_all"],
    ["other_read"], ["other_write"], ["other_exec"], ["other_all"], ["suid"], ["sgid"],
    ["width"], ["height"], ["mime"], ["is_binary"], ["is_text"], ["line_count"],
    ["exif_datetime"], ["exif_altitude", "exif_alt"], ["exif_latitude", "exif_lat"],
    ["exif_longitude", "exif_lng"], ["exif_make"], ["exif_model"], ["exif_software"], ["exif_version"],
    ["mp3_title", "title"], ["mp3_album", "album"], ["mp3_artist", "artist"], ["mp3_genre", "genre"],
    ["mp3_year"], ["mp3_freq", "freq"], ["mp3_bitrate", "bitrate"], ["duration"],
    ["is_shebang"], ["is_empty"], ["is_archive"], ["is_audio"], ["is_book"], ["is_doc"], ["is_font"],
    ["is_image"], ["is_source"], ["is_video"],
    ["sha1"], ["sha2_256", "sha256"], ["sha2_512", "sha512"], ["sha3_512", "sha3"],
]
COLUMNS = [g[0] for g in COLUMN_ALIASES]
ALL_COLUMN_WORDS = [w for g in COLUMN_ALIASES for w in g]

BOOL_COLUMNS = ["is_dir", "is_file", "is_symlink", "is_pipe", "is_char", "is_block", "is_socket", "is_hidden",
                "has_xattrs", "user_read", "user_write", "user_exec", "user_all", "group_read", "group_write",
                "group_exec", "group_all", "other_read", "other_write", "other_exec", "other_all", "suid",
                "sgid", "is_binary", "is_text", "is_shebang", "is_empty", "is_archive", "is_audio", "is_book",
                "is_doc", "is_font", "is_image", "is_source", "is_video"]
NUM_COLUMNS = ["size", "uid", "gid", "hardlinks", "inode", "blocks", "line_count"]
DATE_COLUMNS = ["modified", "accessed", "created"]
TEXT_COLUMNS = ["name", "ext", "path", "abspath", "dir", "absdir", "mode", "user", "group", "fsize", "mime",
                "caps", "sha1"]

FUNCTION_ALIASES = [
    ["avg"], ["count"], ["max"], ["min"], ["sum"], ["stddev_pop", "stddev", "std"], ["stddev_samp"],
    ["var_pop", "variance"], ["var_samp"],
    ["current_date", "cur_date", "curdate"], ["day"], ["month"], ["year"], ["dow", "dayofweek"],
    ["current_uid"], ["current_user"], ["current_gid"], ["current_group"],
    ["has_xattr"], ["xattr"], ["has_capabilities", "has_caps"], ["has_capability", "has_cap"],
    ["length", "len"], ["lower", "lowercase", "lcase"], ["upper", "uppercase", "ucase"], ["initcap"],
    ["to_base64", "base64"], ["from_base64"], ["substring", "substr"], ["replace"], ["trim"], ["ltrim"],
    ["rtrim"],
    ["contains_japanese", "japanese"], ["contains_kana", "kana"], ["contains_hiragana", "hiragana"],
    ["contains_katakana", "katakana"], ["contains_kanji", "kanji"],
    ["bin"], ["hex"], ["oct"], ["abs"], ["power", "pow"], ["sqrt"], ["log"], ["ln"], ["exp"], ["least"],
    ["greatest"], ["contains"], ["coalesce"], ["concat"], ["concat_ws"], ["random", "rand"],
    ["format_time", "pretty_time"], ["format_size"],
]
FUNCTIONS = [g[0] for g in FUNCTION_ALIASES]
ALL_FUNCTION_WORDS = [w for g in FUNCTION_ALIASES for w in g]
AGGREGATES = ["avg", "count", "max", "min", "sum", "stddev_pop", "stddev_samp", "var_pop", "var_samp"]
SCALAR_FUNCTIONS = [f for f in FUNCTIONS if f not in AGGREGATES]

OP_ALIASES = [
    ["=", "==", "eq"], ["!=", "<>", "ne"], ["===", "eeq"], ["!==", "ene"], [">", "gt"],
    [">=", "gte", "ge"], ["<", "lt"], ["<=", "lte", "le"], ["=~", "~=", "regexp", "rx"],
    ["!=~", "!~=", "notrx"], ["like"], ["notlike"], ["between"],
]
ALL_OPS = [w for g in OP_ALIASES for w in g]
ARITH_ALIASES = [["+", "plus"], ["-", "minus"], ["*", "mul"], ["/", "div"], ["%", "mod"]]
ROOT_OPTION_ALIASES = [
    ["maxdepth", "depth"], ["symlinks", "sym"], ["archives", "arc"], ["gitignore", "git"],
    ["hgignore", "hg"], ["dockerignore", "dock"], ["nogitignore", "nogit"], ["nohgignore", "nohg"],
    ["nodockerignore", "nodock"], ["regexp", "rx"], ["mindepth"], ["dfs"], ["bfs"],
]
FORMATS = ["tabs", "lines", "list", "csv", "json", "html"]
KEYWORDS = ["select", "from", "where", "and", "or", "not", "order", "by", "group", "limit", "into", "asc",
            "desc", "between", "like"]
ARITH_WORDS = ["plus", "minus", "mul", "div", "mod"]

ROOT_OPTION_PREFIXES = ("arc", "sym", "git", "hg", "dock", "nogit", "nohg", "nodock", "regex")

_reserved = None


def reserved_words():
    """Words a generated *literal* must not spell (they would be read as column, function, keyword,
    operator word or root option). Floor: the documentation tables above; plus every quoted lower-case
    word of the alias tables in /repo/src (read as data) so that undocumented aliases are avoided too."""
    global _reserved
    if _reserved is None:
        w = set(ALL_COLUMN_WORDS) | set(ALL_FUNCTION_WORDS) | set(KEYWORDS) | set(ARITH_WORDS) | set(FORMATS)
        w |= {x for g in OP_ALIASES for x in g if x.isalpha()}
        w |= {x for g in ROOT_OPTION_ALIASES for x in g}
        w |= {"true", "false", "yes", "no", "y", "n", "today", "yesterday"}
        for f in ("field.rs", "function.rs", "lexer.rs", "operators.rs", "parser.rs", "query.rs"):
            try:
                src = open(os.path.join(build.REPO, "src", f)).read()
            except OSError:
                continue
            src = src.split("#[cfg(test)]\nmod tests")[0]
            for m in re.finditer(r'"([a-z_0-9]{1,24})"', src):
                w.add(m.group(1))
        _reserved = w
    return _reserved


def is_reserved(word):
    lw = word.lower()
    return lw in reserved_words() or lw.startswith(ROOT_OPTION_PREFIXES)


def quote(s):
    """Quote a literal with a quote character that does not occur in it (the lexer has no escapes)."""
    for q in ("'", '"', "`"):
        if q not in s:
            return q + s + q
    raise ValueError("literal contains all three quote characters: %r" % s)
