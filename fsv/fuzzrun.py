"""In-process libFuzzer supplement for C10 / C11 (DESIGN.md 4, C10 'Supplement').

The cargo-fuzz crate /verif/fuzz includes /repo/src/*.rs by #[path], so it always compiles the current
working tree. Campaigns are fixed-work (-runs=N per process, fixed -seed) on a fresh corpus seeded with the
unit tests' query strings. A crash/timeout artifact is only *evidence*: the property module converts it into an
argv and re-judges it on the real binary; what does not reproduce there is discarded (and counted).

    python3-vt -m fsv.fuzzrun --build        # used by MANIFEST.setup_cmd (best effort)
"""
import glob
import os
import re
import shutil
import subprocess
import sys
import tempfile

from . import build as _build

FUZZ_DIR = os.path.join(_build.VERIF, "fuzz")
BIN_DIR = os.path.join(FUZZ_DIR, "target", "x86_64-unknown-linux-gnu", "release")


def build_targets(quiet=True):
    """cargo +nightly fuzz build; returns (ok, message). Never raises."""
    env = dict(os.environ, CARGO_NET_OFFLINE="true", CARGO_TERM_COLOR="never")
    env["RUSTFLAGS"] = "--cfg fselect_verif"   # cargo-fuzz appends its own flags; enables the guarded hooks in /repo/src
    try:
        p = subprocess.run(["cargo", "+nightly", "fuzz", "build", "--fuzz-dir", FUZZ_DIR], cwd=FUZZ_DIR, env=env,
                           stdout=subprocess.PIPE, stderr=subprocess.STDOUT, timeout=1500)
    except (OSError, subprocess.TimeoutExpired) as e:
        return False, "cargo fuzz build could not run: %s" % e
    if p.returncode != 0:
        return False, p.stdout.decode("utf-8", "replace")[-1500:]
    return True, "built"


def campaign(target, runs_per_proc, seed, procs=14, max_len=256, timeout_s=5, seeds="seeds", dictionary="dict.txt"):
    """Run `procs` independent libFuzzer processes with fixed work. Returns dict with execs and artifacts (bytes)."""
    binary = os.path.join(BIN_DIR, target)
    if not os.path.exists(binary):
        return {"available": False, "reason": "fuzz target %s not built" % target}
    work = tempfile.mkdtemp(prefix="fsv-fuzz-", dir="/tmp")
    ps = []
    try:
        for i in range(procs):
            corpus = os.path.join(work, "c%d" % i)
            art = os.path.join(work, "a%d" % i)
            os.makedirs(corpus)
            os.makedirs(art)
            for f in glob.glob(os.path.join(FUZZ_DIR, seeds, "*")):
                shutil.copy(f, corpus)
            cmd = [binary, corpus, "-runs=%d" % runs_per_proc, "-seed=%d" % (seed * 1000 + i + 1), "-max_len=%d" % max_len,
                   "-len_control=0", "-timeout=%d" % timeout_s, "-dict=" + os.path.join(FUZZ_DIR, dictionary),
                   "-artifact_prefix=" + art + "/", "-print_final_stats=1", "-rss_limit_mb=2048"]
            env = dict(os.environ, ASAN_OPTIONS="detect_odr_violation=0:detect_leaks=0", RUST_BACKTRACE="0")
            ps.append((subprocess.Popen(cmd, stdout=subprocess.DEVNULL, stderr=open(os.path.join(work, "err%d" % i), "wb"), env=env, cwd=work), art, i))
        execs = 0
        artifacts = []
        crashed = 0
        for p, art, i in ps:
            try:
                p.wait(timeout=3600)
            except subprocess.TimeoutExpired:
                p.kill()
                p.wait()
            with open(os.path.join(work, "err%d" % i), "rb") as fh:   # stderr goes to a file: rejections print a line each
                fh.seek(max(0, os.path.getsize(fh.name) - 20000))
                err = fh.read()
            m = re.search(rb"stat::number_of_executed_units:\s*(\d+)", err)
            if m:
                execs += int(m.group(1))
            if p.returncode != 0:
                crashed += 1
            for f in sorted(glob.glob(os.path.join(art, "*"))):
                with open(f, "rb") as fh:
                    artifacts.append((os.path.basename(f).split("-")[0], fh.read()))
        return {"available": True, "target": target, "processes": procs, "runs_per_process": runs_per_proc, "executions": execs,
                "processes_stopped_by_finding": crashed, "artifacts": artifacts}
    finally:
        shutil.rmtree(work, ignore_errors=True)


if __name__ == "__main__":
    if "--build" in sys.argv:
        ok, msg = build_targets()
        print("fsv.fuzzrun: fuzz targets %s" % ("built" if ok else "NOT built (supplement will be skipped): " + msg[-400:]))
        sys.exit(0)
