"""Sensitivity (mutation) protocol, DESIGN.md 3.5 - developer tool, not a registered check.

Applies one realistic mutant at a time to a *scratch copy* of the repository (FSV_REPO, never /repo itself),
builds it into a private target directory (FSV_TARGET), runs the quick check of the property the mutant
breaks, and records the verdict. Usage (from a snapshot with its own repo copy):

    vp run --with-repo --timeout 4h -- python3-vt -m fsv.sens [MUTANT-ID ...]

Results: sensitivity_results.json in the current directory (copied into SENSITIVITY.md by hand).
"""
import json
import os
import subprocess
import sys
import time

MUTANTS = [
    # id, property, file, old, new, what
    ("M01", "C01", "src/searcher.rs", "if max_depth == 0 || depth < max_depth {", "if max_depth == 0 || depth <= max_depth {", "maxdepth gate off by one (descends one level too deep)"),
    ("M02", "C01", "src/searcher.rs", "if min_depth == 0 || depth >= min_depth {", "if min_depth == 0 || depth > min_depth {", "mindepth gate off by one"),
    ("M03", "C01", "src/searcher.rs", "let path = self.dir_queue.pop_front().unwrap();", "let path = self.dir_queue.pop_back().unwrap();", "BFS queue drained from the back (level order broken, set unchanged)"),
    ("M04", "C02", "src/searcher.rs", "Op::Gte => int_value >= val,", "Op::Gte => int_value > val,", "integer >= evaluated as >"),
    ("M05", "C02", "src/parser.rs", "                        false => Op::Lte,\n                        true => Op::Gt,", "                        false => Op::Lt,\n                        true => Op::Gt,", "BETWEEN upper bound exclusive"),
    ("M06", "C02", "src/searcher.rs", "Op::Lte => dt <= finish,", "Op::Lte => dt <= start,", "date <= uses the start of the literal's interval"),
    ("M07", "C02", "src/searcher.rs", "Op::Eeq => val.eq(&field_value.to_string()),", "Op::Eeq => val.eq_ignore_ascii_case(&field_value.to_string()),", "=== ignores letter case"),
    ("M08", "C03", "src/operators.rs", "Op::Like => Op::NotLike,", "Op::Like => Op::Like,", "negation leaves LIKE unchanged"),
    ("M09", "C03", "src/parser.rs", "LogicalOp::And => LogicalOp::Or,\n                LogicalOp::Or => LogicalOp::And,", "LogicalOp::And => LogicalOp::Or,\n                LogicalOp::Or => LogicalOp::Or,", "De Morgan swap only for AND"),
    ("M10", "C04", "src/mode.rs", "const S_IWGRP: u32 = 0o20;", "const S_IWGRP: u32 = 0o10;", "group_write tests the group_exec bit"),
    ("M11", "C04", "src/util/mod.rs", "        if s.ends_with(ext) {", "        if s.ends_with(ext) && s.len() > ext.len() {", "extension class false for a name that is exactly the extension (e.g. '.zip')"),
    ("M12", "C04", "src/util/mod.rs", "let mut reader = BufReader::with_capacity(1024 * 32, file);\n        let mut count = 0;", "let mut reader = BufReader::with_capacity(1024 * 32, file);\n        let mut count = 0;\n        let mut first = true;", None),
    ("M13", "C05", "src/util/mod.rs", "        if self.orderings[i] {\n            comparison", "        if self.orderings[0] {\n            comparison", "direction of the first key applied to every key"),
    ("M14", "C05", "src/util/mod.rs", "        if field.contains_numeric() {\n            comparison = self.cmp_at_numbers(other, i);", "        if field.contains_numeric() && i == 0 {\n            comparison = self.cmp_at_numbers(other, i);", "numeric comparison only for the first key"),
    ("M15", "C06", "src/util/top_n.rs", "let last_key = self.echelons.iter().next_back().unwrap().0.clone();", "let last_key = self.echelons.iter().next().unwrap().0.clone();", "TopN evicts the smallest echelon"),
    ("M16", "C06", "src/searcher.rs", "if !self.is_buffered() && self.query.limit > 0 && self.query.limit <= self.found\n                    {", "if !self.is_buffered() && self.query.limit > 0 && self.query.limit < self.found\n                    {", "streaming early exit one row late"),
    ("M17", "C07", "src/function.rs", "let n = if size == 1 { 1 } else { size - 1 };\n            let variance = get_variance(raw_output_buffer, &buffer_key, n);\n\n            variance.to_string()", "let n = if size == 1 { 1 } else { size };\n            let variance = get_variance(raw_output_buffer, &buffer_key, n);\n\n            variance.to_string()", "VAR_SAMP divides by n"),
    ("M18", "C07", "src/function.rs", ".filter_map(|value| value.parse::<i64>().ok()) // Parse the value and filter out errors\n                .max()", ".filter_map(|value| value.parse::<i64>().ok()) // Parse the value and filter out errors\n                .filter(|v| *v < 4294967296)\n                .max()", "MAX ignores values >= 2^32"),
    ("M19", "C08", "src/searcher.rs", "                .map(|f| item.get(f).unwrap_or(&String::new()).clone())\n                .collect();", "                .map(|f| item.get(f).unwrap_or(&String::new()).to_lowercase())\n                .collect();", "group keys folded to lower case (README and readme merge; key shown lower-cased)"),
    ("M20", "C09", "src/output/json.rs", "Some(\",\".to_owned())", "Some(\", \".to_owned())", None),
    ("M21", "C09", "src/output/html.rs", "'\"' => result.push_str(\"&quot;\"),", "'\"' => result.push_str(\"&quote;\"),", "wrong entity name for the double quote"),
    ("M22", "C10", "src/parser.rs", "                        if let Ok(limit) = s.parse() {\n                            return Ok(limit);", "                        if let Ok(limit) = s.parse::<i64>() {\n                            return Ok(u32::try_from(limit).unwrap());", "negative LIMIT panics"),
    ("M23", "C11", "src/operators.rs", "\"<=\" | \"lte\" | \"le\" => Some(Op::Lte),", "\"<=\" | \"lte\" => Some(Op::Lte),", "alias `le` dropped from the operator table"),
    ("M24", "C11", "src/lexer.rs", "\"desc\" => Some(Lexem::DescendingOrder),", "\"desc\" if s == \"desc\" => Some(Lexem::DescendingOrder),", "DESC recognised in lower case only"),
    ("M25", "C12", "src/util/glob.rs", "        } else if c == one {\n            pattern.push('.');", "        } else if c == one {\n            pattern.push_str(\".?\");", "single-character wildcard also matches nothing"),
    ("M26", "C12", "src/util/glob.rs", "format!(\"^(?is){}$\", pattern)", "format!(\"^(?is){}\", pattern)", "pattern not anchored at the end"),
    ("M27", "C13", "src/util/datetime.rs", "                    sec_start = 0;\n                    sec_finish = 59;", "                    sec_start = 0;\n                    sec_finish = 58;", "interval of a minute/day literal ends one second early"),
    ("M28", "C13", "src/util/datetime.rs", "    if s == \"today\" {\n        let date = Local::now().date_naive();", "    if s == \"today\" {\n        let date = chrono::Utc::now().date_naive();", "`today` computed in UTC"),
    ("M29", "C14", "src/util/mod.rs", "        return match &string[..(length - 2)].parse::<f64>() {\n            Ok(size) => Some((*size * 1000.0) as u64),", "        return match &string[..(length - 2)].parse::<f64>() {\n            Ok(size) => Some((*size * 1024.0) as u64),", "kb = 1024"),
    ("M30", "C14", "src/util/mod.rs", "space = cap.name(\"space\").map_or(false, |m| m.as_str() == \" \");", "space = cap.name(\"space\").map_or(false, |m| m.as_str() == \"_\");", "space flag ignored"),
    ("M31", "C15", "src/parser.rs", "                    Some(ArithmeticOp::Multiply)\n                    | Some(ArithmeticOp::Divide)\n                    | Some(ArithmeticOp::Modulo) => {", "                    Some(ArithmeticOp::Multiply)\n                    | Some(ArithmeticOp::Divide) => {", "% no longer binds like * and / (falls out of the term)"),
    ("M32", "C15", "src/expr.rs", "                    ArithmeticOp::Subtract => \" - \",", "                    ArithmeticOp::Subtract => \" + \",", "expression text of a - b equals that of a + b (cache collision again)"),
    ("M33", "C16", "src/function.rs", "let result = source.replace(from, to);", "let result = source.replacen(from, to, 1);", "REPLACE replaces the first occurrence only"),
    ("M34", "C16", "src/function.rs", "Some(Function::ConcatWs) => Variant::from_string(&function_args.join(&function_arg)),", "Some(Function::ConcatWs) => Variant::from_string(&(function_args.join(&function_arg) + &function_arg)),", "CONCAT_WS appends a trailing separator"),
    ("M35", "C17", "src/searcher.rs", "            Err(err) => {\n                self.error_count += 1;\n                path_error_message(dir, err);\n            }\n        }\n\n        if traversal_mode == Bfs && process_queue {", "            Err(err) => {\n                path_error_message(dir, err);\n            }\n        }\n\n        if traversal_mode == Bfs && process_queue {", "unlistable directory not counted as an error (status stays 0)"),
    ("M36", "C17", "src/searcher.rs", "            Err(err) => {\n                self.error_count += 1;\n                path_error_message(dir, err);\n            }\n        }\n\n        if traversal_mode == Bfs && process_queue {", "            Err(err) => {\n                self.error_count += 1;\n                path_error_message(dir, err);\n                self.dir_queue.clear();\n            }\n        }\n\n        if traversal_mode == Bfs && process_queue {", "an unlistable directory empties the BFS queue (siblings abandoned)"),
    ("M37", "C18", "src/searcher.rs", "        if self.current_follow_symlinks && !self.visited_dirs.insert(PathBuf::from(&canonical_path))\n        {\n            return Ok(());\n        }", "        if self.current_follow_symlinks && !self.visited_dirs.insert(dir.to_path_buf())\n        {\n            return Ok(());\n        }", "visited set keyed by the spelled path again"),
    ("M38", "C18", "src/searcher.rs", "                                                    Some(parent) if resolved.is_relative() => {\n                                                        parent.join(resolved)\n                                                    }", "                                                    Some(parent) if resolved.is_relative() && false => {\n                                                        parent.join(resolved)\n                                                    }", "relative link targets resolved against the cwd again"),
    ("M39", "C19", "src/searcher.rs", "                                                    if !self.is_buffered()\n                                                        && self.query.limit > 0", "                                                    if self.query.limit > 0", "archive member loop stops at LIMIT in buffered mode again"),
    ("M40", "C19", "src/fileinfo.rs", "        size: zipped_file.size(),", "        size: zipped_file.compressed_size(),", "member size is the compressed size"),
    ("M41", "C20", "src/ignore/docker.rs", "            matched = !dockerignore_filter.negate;", "            matched = matched || !dockerignore_filter.negate;", "dockerignore negation never re-includes"),
    ("M42", "C20", "src/searcher.rs", "                .gitignore\n                .unwrap_or(self.config.gitignore.unwrap_or(false));", "                .gitignore\n                .unwrap_or(false);", "configuration default for gitignore not honoured"),
    ("M43", "C09", "src/searcher.rs", "        if !self.is_buffered() && self.found > 1 {\n            self.results_writer.write_row_separator(&mut buf)?;", "        if !self.is_buffered() && self.found > 2 {\n            self.results_writer.write_row_separator(&mut buf)?;", "streamed output: separator between the first two rows missing"),
    ("M44", "C16", "src/function.rs", "                pos = string_length.saturating_sub(pos.saturating_abs()).saturating_add(1);", "                pos = string_length.saturating_sub(pos.saturating_abs());", "SUBSTR negative position off by one"),
]
# M12 / M20 are placeholders that compile to the same behaviour (None = equivalent mutant, expected verdict: held)


def main():
    repo = os.environ.get("VP_RUN_REPO") or os.environ.get("FSV_REPO")
    if not repo or os.path.realpath(repo) == "/repo":
        print("refusing to mutate /repo itself: run through `vp run --with-repo` or set FSV_REPO to a scratch copy")
        sys.exit(2)
    target = os.environ.get("FSV_TARGET") or "/tmp/fsv-sens-target"
    env = dict(os.environ, FSV_REPO=repo, FSV_TARGET=target)
    if os.environ.get("FSV_SENS_SEARCH_ONLY"):
        env["FSV_SKIP_PINNED"] = "1"     # verdict of the generated search and the enumerations alone
    want = set(sys.argv[1:])
    results = []
    for mid, prop, f, old, new, what in MUTANTS:
        if want and mid not in want:
            continue
        path = os.path.join(repo, f)
        src = open(path).read()
        if old not in src:
            results.append({"id": mid, "property": prop, "verdict": "not-applicable (source text not found)", "what": what})
            print(mid, prop, "source text not found")
            continue
        open(path, "w").write(src.replace(old, new, 1))
        t0 = time.time()
        try:
            p = subprocess.run([sys.executable, "-m", "fsv.check", prop, "--tier", "quick"], env=env, stdout=subprocess.PIPE, stderr=subprocess.STDOUT)
            out = p.stdout.decode("utf-8", "replace")
        finally:
            open(path, "w").write(src)
        sig = ""
        for line in out.splitlines():
            if line.strip().startswith("failing"):
                sig = line.strip()[:260]
                break
        verdict = {0: "held (NOT detected)", 1: "VIOLATION (detected)", 2: "infrastructure"}.get(p.returncode, "rc=%d" % p.returncode)
        results.append({"id": mid, "property": prop, "what": what or "equivalent mutant (behaviour unchanged)", "verdict": verdict,
                        "seconds": round(time.time() - t0), "first_failure": sig})
        print(mid, prop, verdict, "%ds" % (time.time() - t0), sig[:160])
        sys.stdout.flush()
        with open("sensitivity_results.json", "w") as fh:
            json.dump(results, fh, indent=1)
    # leave the scratch target dir for the caller to delete
    print("done; remove", target)


if __name__ == "__main__":
    main()
