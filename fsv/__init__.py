"""fsv - property-based verification engine for jhspetersson/fselect (see /verif/DESIGN.md)."""
