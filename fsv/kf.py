"""Source of /verif/known_findings.json (python3-vt -m fsv.kf regenerates it; never run by a check).

status "fixed": a genuine defect repaired by a `fix:` commit in /repo; suppresses nothing - the failing
input stays in the property's PINNED list, so a regression is a VIOLATION.
status "open": a genuine defect recorded instead of repaired; matched by exact signature.
"""
import json
import os

FIXED = [
    # (property, commit, what failed, pinned labels)
    ("C10", "88bc206", "a select list starting with `/` or `%` (e.g. `fselect /`, `% from .`) never terminated: parse_fields retried the same token forever", ["leading-slash", "leading-percent"]),
    ("C10", "e5152af", "`order by 0`, `order by N` beyond the column count, `order by desc`, and an incomplete expression after GROUP BY / ORDER BY panicked (status 101)", ["order-by-0", "order-by-3-of-1", "order-by-desc", "group-by-incomplete", "order-by-incomplete"]),
    ("C10", "6f046db", "an unknown operator made of operator characters (`size =! 3`) panicked in parse_cond", ["unknown-op"]),
    ("C10", "982f74a", "`-c` / `--config` without a value indexed past argv and panicked", ["dash-c-alone"]),
    ("C10", "2559a82", "ill-typed function arguments panicked: substr(name, x), substr(name, 2, -1), replace(name, a), power(2, x), log(2, x), format_time(name), rand(0), rand(5, 1)", ["substr-bad-pos", "substr-neg-len", "replace-one-arg", "power-bad", "log-bad", "format-time-text", "rand-zero", "rand-reversed"]),
    ("C10", "c4a4788", "`where is_dir = maybe` panicked in Variant::to_bool (expect)", ["bool-maybe"]),
    ("C10", "f4ba877", "`modified = '2020-02-28 25:61'` and `modified = '-x'` panicked in parse_datetime (unwrap)", ["date-25-61"]),
    ("C15", "39181ba", "the per-row value cache was keyed by an incomplete rendering of the expression: `size + 1, size - 1` printed the same value twice, `(2 + 3) * 4` printed 14, `power(size, 2), power(size, 3)` shared one result", ["plus-minus-neighbours", "bracket-placement", "power-later-arg", "same-subexpr-in-one", "left-assoc"]),
    ("C15", "499e0dc", "a leading minus on a column or function call was ignored (`-size` printed the size)", ["neg-column"]),
    ("C15", "5e1797f", "a negative integer literal compared with an integer value was read as 0 (`where -size < -13` matched every file)", ["neg-column"]),
    ("C02", "c323f3c", "a quoted literal that spells a column or function name was looked up as one: `name = 'size'` compared with the size column, `ext = 'bin'` was a parse error (BIN without brackets), `name = 'name'` matched everything", ["reserved-literals"]),
    ("C03", "8abda57", "`not size > 100` was evaluated as `size < 100` (Op::negate mirrored the operator instead of complementing it), losing entries equal to the literal", ["not-gt-boundary", "not-gte-boundary"]),
    ("C03", "3dc60d5", "`not (A and B)` negated the comparisons but kept AND (no De Morgan swap)", ["not-and", "not-or", "double-not"]),
    ("C03", "e50e1db", "`x not between a and b` was built as `x <= a or x >= b`, so entries equal to a bound matched both BETWEEN and NOT BETWEEN", ["not-between"]),
    ("C05", "3da2158", "`order by hardlinks` (also inode, blocks, device) compared the numbers as text: 11 sorted before 3", ["hardlinks-numeric"]),
    ("C05", "ffe2063", "without a WHERE clause `order by size + 1 desc` was lexed as the keys `size`, `+`, column 1 and sorted ascending (arithmetic operators were only recognised after WHERE)", ["expr-desc-no-where"]),
    ("C05", "c52c9af", "`order by modified` panicked when the current date is 29 February (fallback date built from today's date with year 1970)", ["date-key-on-feb-29"]),
    ("C06", "b34b410", "with `archives`, ORDER BY and LIMIT N the archive member loop stopped after N rows had been seen: `order by size desc limit 1` returned the archive instead of its larger member", ["archive-top1-by-size"]),
    ("C07", "795173b", "AVG used integer division (sizes 1,2,4,6 -> 3 instead of 3.25) and VAR_*/STDDEV_* were computed around that truncated mean", ["fractional-mean"]),
    ("C09", "5612c22", "`into html` copied values into <td> without escaping < > & (names `<x>`, `a&b` broke the markup or changed value)", ["html-escaping"]),
    ("C09", "a0cf93e", "grouped results were written without row separators: `into json` printed `[{...}{...}]`", ["grouped-separators"]),
    ("C09", "d6b99f4", "a CSV row larger than the csv writer's 8 KiB buffer containing multi-byte characters was truncated or dropped (WritableBuffer rejected chunks ending inside a UTF-8 sequence)", ["csv-long-multibyte-row"]),
    ("C12", "21e45fe", "glob/LIKE translation left + { } | and backslash unescaped (`name = 'a+b*'` matched aab.txt, not a+b.txt; `{` made the pattern invalid) and LIKE treated `?` as an optional-character wildcard", ["glob-metachars", "like-metachars"]),
    ("C12", "5c12388", "the compiled-pattern cache was keyed by pattern text only: the same text under `=` and `like`/`=~` in one query reused the first compilation", ["cache-shared-across-operators"]),
    ("C14", "de3a680", "size literals with the documented units t, tb, tib were not parsed (`size = 1t` compared with 0)", ["t-units", "tb-units", "tib-fraction"]),
    ("C04", "8580ef9", "is_char was true for symbolic links and block devices (`mode & S_IFCHR == S_IFCHR` without the S_IFMT mask): two type booleans true at once", ["symlink-and-block-are-not-char"]),
    ("C04", "0e69e47", "for archive members is_file/is_dir/is_symlink came from the member name only: a member stored with a FIFO, device, socket or symlink mode was also reported as a regular file", []),
    ("C17", "725b9c0", "when the reader of stdout closed the pipe, `into html`/`into json` (footer) and grouped output hit unwrap() on the BrokenPipe error: panic message, status 101", ["pipe-html-streamed", "pipe-json-ordered"]),
    ("C18", "c679315", "with `symlinks` a relative link target was resolved against the process cwd instead of the link's directory (`a/b/up -> ..` walked the parent of the cwd; deeper relative links failed to canonicalize), and a link to a regular file was entered as a directory (`Not a directory`, status 1)", ["relative-up-from-depth-2", "relative-sibling-dir-deep", "link-to-file", "outside-and-cycle"]),
    ("C18", "017fff0", "with `symlinks` a directory reachable directly and through a link (or through two links) was listed once per spelling of its path", ["dir-direct-and-via-link"]),
    ("C19", "2e20137", "an `archives` search panicked when the current date is the 31st or 29 February and a member's stored month has no such day (member time built from Local::now() with fields replaced one by one)", ["clock-on-the-31st", "clock-on-feb-29"]),
    ("C20", "2400262", "gitignore filtering with a relative root: entries were passed to libgit2 as displayed (`./a.log`, or relative to a cwd below the work tree), `from . gitignore` dropped every entry", ["git-dot-root", "git-relative-sub", "git-cwd-below"]),
    ("C20", "c2f47c2", "hgignore: `^rooted` regexps never matched (missing separator), glob tails unanchored (`*.log` hid a.logx), `?` matched a run of characters, unescaped literals", ["hg-glob-tail", "hg-rooted-regexp", "hg-qmark"]),
    ("C20", "e58d1ff", "dockerignore: patterns unrooted and tails unanchored, any matching `!` line won regardless of order", ["docker-rooted", "docker-negation-order", "docker-starstar"]),
    ("C20", "4be56c6", "hgignore with the search root inside an ignored directory: an end-anchored pattern (`\\.log$`) matched the directory but not the entries below it, so `from repo/abc.log hgignore` listed everything", []),
]

FIXED += [
    ("C10", "c4b21e1", "format_size(size, '%.99999999999') (precision beyond i32) and '%.65536' (beyond the formatter's u16) panicked", ["format-precision-overflow", "format-precision-65536"]),
    ("C10", "1be6361", "day('é日本') / `modified > 'é日本'`: non-ASCII date text panicked inside chrono-english (byte-offset slicing)", ["date-function-non-ascii"]),
    ("C10", "8e50c74", "`modified > '99:99:99'`, 'apr 1 25:61', '10.70', day('12345.6'): an out-of-range time made chrono-english panic (found by the eval_total fuzz target)", ["english-date-time-out-of-range", "english-date-decimal"]),
    ("C08", "3fbaa22", "`group by ext order by ext` with extensions that look like numbers next to ones that do not (1, 2, 10, 1x, 9a): the per-pair numeric/text comparator is not a total order - rows came out unsorted, and with ~40 such groups the sort panicked (status 101)", ["mixed-numeric-looking-keys", "mixed-numeric-looking-keys-many"]),
    ("C02", "956b72e", "an integer column compared with a number that has a fractional part and no unit (`size < 0.5`, `length(name) > 11.6`, `size = 4096.0`): the literal was read as 0 (noticed by a round-3 seeding agent as a side remark; C02 had no decimal literals without unit)", ["decimal-literal"]),
    ("C05", "b34e293", "numeric ORDER BY keys went through the unsigned size parser: negative and fractional keys (`size - 100`, `-size`, `length(name) - 6`) all counted as 0 and came out unsorted (audit agent + extended key pool)", []),
    ("C05", "9b74d0e", "the comparison of an ORDER BY key was chosen from its left-most operand: `2 * size`, `1000000 - size` compared as text; `hex(size)`, `concat(size, name)` as numbers (no sorting at all); `substr(modified, 1, 4)`, `dow(modified)` as dates that never parse", []),
    ("C06", "c4b7fa4", "LIMIT was ignored for GROUP BY queries (`select ext, count(*) ... group by ext order by 2 desc limit 3` printed every group)", []),
    ("C08", "62f6e8f", "`order by avg(size)` over group rows sorted as text (10.5 < 100 < 9.5): a column counted as numeric only when all values were integers", []),
    ("C08", "419526c", "a GROUP BY query ordered by a key or aggregate it does not display (`select ext, count(*) ... order by sum(size)`) was silently sorted by its first column", []),
    ("C10", "3912556", "an argument that is not valid UTF-8 (`fselect name from $'r\\xff'`) panicked in env::args() (audit agent; C10 now has such arguments)", []),
    ("C04", "15dfb9c", "the path given with --config was lower-cased: a configuration file below a directory with an upper-case letter was never found, the overriding extension lists were ignored (audit agent; C04 now also passes its configurations with --config)", []),
    ("C01", "5f45e0f", "a search root whose name begins with ~ (`from ~t`, `from '~t/sub'`) was replaced by / joined to the home directory (audit agent; C01 now has special-root cases)", []),
    ("C01", "2e2ec5c", "search root `/` (and the default root with cwd /): the depth window was off by one below level 1 because calc_depth(\"/\") == calc_depth(\"/tmp\") (audit agent; C01 now searches `/` inside a chroot jail)", []),
    ("C01", "b05f7a6", "the set of visited directories was keyed by inode number without the device: with several file systems below the root (or roots on different file systems) directories whose inode number repeats were listed but not entered (audit agent; C01 now builds trees over several tmpfs mounts in a private mount namespace)", []),
    ("C02", "0a7cabf", "`name = ext`: wildcard characters in the right-hand column's VALUE were read as a pattern (for a file `a.*` every name equalled its extension) (audit agent; C02's model no longer exempts such values)", []),
    ("C03", "fb4fd25", "`>`, `>=`, `<`, `<=` and BETWEEN on a text value were false for every entry and so were their negations (`name > 'b'` and `not name > 'b'` both empty): `not A` was not the complement of A (audit agent)", []),
    ("C03", "bb45f3e", "LIKE / regular expressions on numbers, dates and booleans were false for every entry and so were their negations (`size like '1%'`, `size not like '1%'`) (audit agent)", []),
    ("C10", "c97bb62", "a bracket opened after a function word and never closed was accepted: `lower( from .`, `name, lower(( from .`, `where size > length(`, `name, length( limit x` ended with status 0 and rows (every error in the first argument was discarded) (audit agent; the forms are now enumerated in class v)", []),
    ("C10", "b122ef5", "a dangling NOT (`where is_file not`, `where name not`) was silently dropped: status 0 (audit agent; enumerated in class v)", []),
    ("C15", "7306c0f", "a text literal that spells a column's display name was replaced by that column's value when the column was selected too: `select name, 'Name'` printed the name twice, `select mode, contains('Mode')` searched for the mode string (audit agents C04/C09; C15 now puts such literals next to columns)", []),
    ("C09", "7035180", "`into html` wrote a carriage return raw: every HTML/XML parser turns it into a line feed, so the value `c\\rd` decoded as `c\\nd` (audit agent; the check's HTML parser now normalises line ends like a real one)", []),
    ("C09", "896554b", "`into json` dropped a column that was selected twice (`select name, size, name`; 'A' and 'a' in grouped queries): the object had fewer members than the row has values (audit agent; a fifth of the cases now repeat a column)", []),
    ("C13", "bd2b19a", "a signed day offset of four or more digits (`modified gte -1000`) went to the English date parser and silently meant something else (all entries / none) (audit agents; C13 now draws offsets up to five digits)", []),
    ("C13", "5d63b84", "every date literal of a day whose local midnight is ambiguous (America/Havana falling back from 01:00 to 00:00) was rejected: Can't parse datetime (audit agents; Havana is now one of C13's time zones)", []),
    ("C14", "ffddbb4", "`size = 2.01kb` compared with 2009 bytes: the product 2.01 * 1000.0 = 2009.9999999999998 was cut to an integer (audit agent; C14's literal oracle now uses exact rationals and such fractions)", []),
    ("C20", "9f3530e", "gitignore with the search root ABOVE a repository (`from ~/projects gitignore`) and the default bfs traversal: rules applied to the first level of the repository only (Repository::open on a queued sub-directory fails); dfs was right (audit agent; C20 now has root-above-repository cases)", []),
    ("C20", "0a88cff", "hg / docker pattern lists accumulated from one search root to the next: a root nested in another context was also judged by the outer context's file, depending on root order (audit agent; C20's several-roots cases now nest contexts)", []),
    ("C20", "643caf9", "hgignore glob `build/` (trailing slash) ignored nothing (audit agent; `dir/` patterns are now generated for hg too)", []),
    ("C20", "7d874b3", "dockerignore turned every backslash of a path into a slash on Unix: pattern `x` ignored `x\\y.txt`, and below a directory with a backslash in its name no rule applied (audit agent; backslash names are in C20's vocabulary)", []),
    ("C15", "c5fe120", "expression texts (the keys of the per-row value map) wrote text literals bare: `length('Size')` / `length(size)`, `concat('a, b')` / `concat('a', 'b')`, `length(upper('x'))` / `length('Upper(x)')` shared a key and the first one decided both values (audit agents C15/C16; C15 now runs confusable pairs)", []),
    ("C10", "f5d65fe", "`width` / `height` on a directory, dangling link, unreadable or non-UTF-8 file called *.svg panicked (unwrap of svg::open) (audit agents C10/C17; C10's tree now has such entries)", []),
    ("C10", "eddf26a", "2500 nested brackets or 3000 nested function calls (a 5 KB argument) overflowed the stack: SIGABRT (audit agent; enumerated in C10)", []),
    ("C16", "b5d88fb", "`substr('hello', 2, 0)` returned `ello` (length 0 taken for no length) (audit agent; the reference no longer treats length 0 as don't-care)", []),
    ("C16", "22fd575", "INITCAP rewrote white space (`initcap('a   b')` was 3 characters long, tabs became blanks, leading blanks vanished) (audit agent; the check's own reference had mirrored the implementation - corrected to the documentation's wording)", []),
    ("C19", "129a060", "encrypted members and members with an unsupported compression method were silently dropped although their directory entries are complete (audit agent; one generated member in eight is now such a member)", []),
    ("C04", "8af6352", "has_xattrs / capabilities / has_xattr() / xattr() / has_caps() / has_cap() opened the entry: a symbolic link showed its target's attributes, a FIFO in the tree blocked the search for ever, an unreadable file showed no attributes (audit agents; C04 now has an xattr-own case with links, a pipe and an unreadable file, run as root and as nobody)", []),
    ("C15", "a6b9371", "`-5 % 5`, `0 / -5`, `size * -1` on an empty file printed `-0` (audit agent; C15 asserts that no cell shows a negative zero)", []),
    ("C10", "134076b", "any exif_* column on a file whose GPS rational has denominator 0 panicked: attempt to divide by zero (audit agent; an 80-byte TIFF of that kind is in C10's tree)", []),
    ("C13", "5ac3622", "an unquoted day offset with a plus sign (`modified = +1`) was a syntax error although '+1' and -1 worked: the parser recognised the unary plus and did not advance (audit agents; C13 now draws unquoted +N)", []),
    ("C02", "5a8441c", "the empty text literal could not be written: the parser dropped every empty quoted string, `ext = ''`, `replace(name,'x','')`, `coalesce('', name)` were syntax errors (reported by five audit agents; C02 and C16 now draw empty literals)", []),
    ("C14", "f911603", "a size literal with a unit was cut to a whole number before comparing (`size >= 0.1k` included 102 bytes, `size = 0.1k` matched 102), `1.5b` and `-1k` were read as 0, literals >= 2^63 wrapped (audit agents C02/C14; C14's oracle had floored too - it now compares with the exact rational, and draws negative and huge numbers)", []),
    ("C11", "d0da0a3", "`line_count+1`, `mp3_bitrate+1`, `current_uid+1` (a name with an underscore glued to an arithmetic sign) became one text value while `bitrate+1` worked - an alias pair that did not mean the same (audit agent; C11 now renders select lists without blanks around arithmetic signs)", []),
    ("C20", "a66801f", "hg / docker: a symbolic link was judged by its resolved target (`link.log` not ignored by `*.log`, a link to an ignored file omitted, dangling links never matched) (audit agent; C20's trees now contain links)", []),
    ("C20", "e57cb1e", "dockerignore: an exception below an excluded directory (`sub`, `!sub/keep.txt`) never re-included the file - ignored directories were pruned (audit agent; C20's docker oracle had pruned too - an error of the check corrected first: Docker's matcher decides per path)", []),
    ("C07", "808ff21", "SUM / AVG over an integer-valued expression with negative values (`sum(size - 100)`, `sum(-size)` = 0): negative cells were skipped because the sum was unsigned (audit agent; C07's inner expressions now include arithmetic with negative values)", []),
    ("C09", "4601e26", "group rows came in hash-map order, different on every run: with LIMIT a grouped query returned another SET of rows each time, so two formats of one query disagreed (second audit; exposed by the LIMIT-on-groups repair c4b7fa4; C09 now limits grouped queries too)", []),
    ("C08", "e77a933", "`select count(*) from . group by ext` printed one group only: the implicit `limit 1` of select lists that need no file attribute met the LIMIT-on-groups repair c4b7fa4 (second audit; C08 now also runs every case with the keys not displayed)", []),
    ("C08", "44fdb2c", "ORDER BY over group rows chose numbers or text by the CONTENTS of the column: a text key whose values all look like numbers sorted numerically (unlike the ungrouped query), a numeric key with one empty cell sorted as text (second audit; C08's oracle had accepted both orders for all-numeric text keys - now text keys are text)", []),
    ("C06", "6d1d8a5", "`select contains('a') from .` printed one row without a limit and N rows with `limit N`: functions that read the entry without naming a column left the select list 'constant' (second audit; C06's second select lists now include such functions)", []),
    ("C01", "33fe5e4", "the repair b05f7a6 paired st_dev (lstat) with d_ino (readdir): for a mount point these belong to different file systems, so a directory inside the mount whose inode number equals that of the covered directory was listed but not entered (second audit; C01's mount cases now put the mount points on a fresh tmpfs so that the numbers coincide)", []),
    ("C07", "5b2f11f", "MIN / MAX skipped every value of 2^63 or more (`max(size * size)` for a 4 GB file): the result was smaller than the average, or 0 (second audit; C07's inner expressions now include size * size)", []),
    ("C02", "d3c5e49", "an entry with no value in a numeric column (line_count of a directory) was compared as text and satisfied `line_count < -1`; a literal that is no number was read as 0 (`uid = 'root'` matched root's files) (second audit; C02's model had these as don't-care - now only != holds for a missing value, and the literal is rejected with status 2)", []),
    ("C12", "c98f70f", "`name = +abc*` (unquoted) matched `abc*`: the unary plus accepted since 5ac3622 was dropped in front of text - a regression of that repair (second audit; C12 now also writes every pattern that is one lexer word without quotes)", []),
    ("C13", "f5fb644", "every date literal of a day whose local midnight does not occur (America/Santiago 2038-09-05: the clock jumps from 00:00 to 01:00) was rejected with `Can't parse datetime`, even `'2038-09-05 12'` (second audit; the earlier repair 5d63b84 had only covered a midnight that occurs twice; Santiago and such days are now in C13's pools)", []),
    ("C15", "7874af3", "a boolean value inside arithmetic was 1 / 0 when first evaluated and 0 once kept as the text `true`: `kana(name) + 1` depended on the columns before it, `kana(name) - kana(name)` was 1, `is_dir + 1` showed 1 where `where is_dir + 1 = 2` held (second audit; C15's pair cases now put boolean columns and functions into arithmetic and compare the displayed value with WHERE)", []),
    ("C15", "9f1b1ae", "`concat(\"a', 'b\")` and `concat('a', 'b')` shared one expression text (a quote inside a literal was not marked): selected together, the second column showed the first one's value (second audit, agents C15 and C16; such pairs are now among C15's confusable pairs)", []),
    ("C16", "3e71921", "`substr('hello', 1, 18446744073709551616)` was empty: a length that does not fit the counter dropped the whole result (second audit; lengths of 2^31, 2^64-1, 2^64 and 10^20 are now drawn)", []),
    ("C16", "54517d2", "`log(1000)` printed 2.9999999999999996 and `where log(size) = 3` found no 1000-byte file (ln(x)/ln(10)) (second audit; the reference had used the same quotient and a tolerance - it now demands the exact exponent for exact powers of 2, 10 and 16)", []),
    ("C16", "86bdcbb", "`least(3, 'x')` was 3 while `least('x', 3)` is empty; `greatest(size, 1000, 'abc')` ignored the text: later arguments that are no numbers were skipped (second audit; the reference had skipped them too - an argument of the wrong kind now empties the result wherever it stands)", []),
    ("C19", "113a181", "`is_hidden` of an archive member was true only at the top level of the archive (`a/.y`, `.hid/`, `a/.b/` were not hidden): `where is_hidden = true` did not filter members like ordinary entries (second audit; C19 has dot-names below directories and an is_hidden filter now)", []),
    ("C19", "82a9cac", "`select ... from . archives where modified >= accessed` ended the whole search with status 2 (`Can't parse datetime:`) at the first archive member, which has no access time - rows of ordinary entries were lost by merely adding `archives` (second audit, agents C17 and C13; C19 filters now compare two date columns)", []),
    ("C19", "efce5e7", "with `archives`, a named pipe called `p.zip` blocked the whole search for ever (open waits for a writer) although only `name` was selected; without `symlinks` the members of an archive behind a symbolic link were listed (second audit, agents C19 and C18; C19 enumerates things called *.zip that are no regular files and tells a blocked open from a slow run by /proc/<pid>/syscall; C18 has an archive-behind-link shape)", []),
    ("C18", "ca0c07e", "directories behind more than 40 symbolic links along one textual path (each relative target written behind the path so far) were silently skipped with status 0: `is_dir()` fails with ELOOP (second audit; C18 enumerates link chains of 12, 39, 45 and 60 levels)", []),
    ("C18", "24a825e", "with `symlinks`, a directory that has two real paths (a bind mount) and is reached through links was listed twice: visited directories were remembered by canonical path only (second audit; C18 builds such a tree in a private mount namespace)", []),
    ("C17", "cb1b7ab", "`abspath` of a link whose target cannot be resolved (dangling, a loop, into a directory closed to the user) was empty - a name column lost because the target cannot be read (second audit; C17 has an enumerated unreadable-target case)", []),
    ("C17", "ed3ca76", "`is_shebang` of an unreadable file and of a dangling link printed `false` where every other content-derived column is empty (the statement names is_shebang among them) (second audit; C17 had accepted `false` as an assumption - it now demands the empty cell)", []),
    ("C20", "fe8ec63", "hgignore regexp `(^|/)build$` (the usual idiom for a name at every level) did not ignore `build` at the top level: only a `^` that is the FIRST character of a pattern was understood (second audit; such patterns are now in C20's hg pool)", []),
    ("C20", "f10c681", "an `.hgignore` / `.dockerignore` in the root directory `/` (an ancestor of the search root) was never applied: every pattern began with `^//` (second audit; C20 enumerates this shape inside a chroot jail)", []),
    ("C14", "ec98393", "`size = 1.7509t` (1925134909072.9984 bytes) matched the file of ...073 bytes, `size > 1.7509t` missed it: the rounding tolerance of the earlier repair ffddbb4 / f911603 is relative and from about 1 TiB on swallows real fractions; `4096.1tb` was one byte off (second audit; C14's literals now include such fractions, with files up to 15 TiB)", []),
    ("C03", "a7b56e8", "`size > name` and `not size > name` were both empty (after d3c5e49 a column value that is no number satisfied only !=), `modified >= name` likewise; `size > nan` and its negation too; `exif_datetime > 'garbage'` ended with status 0 (third audit: regressions and gaps of my own repairs d3c5e49 / 82a9cac; C03 now has mixed-type column pairs, C02 / C10 the literal nan, C10 exif_datetime among the date columns)", []),
    ("C06", "095a9ad", "`select fsize, count(*) ... group by fsize order by fsize [desc] [limit N]`: group rows were not sorted (every cell with a unit compared as 0), `desc` had no effect and `limit N` was not the top N - the repair 44fdb2c had copied the type decision of the ungrouped sort but not its reading of sizes (third audit, agents C05 and C06; C06's grouped sub-check now has fsize as a key)", []),
    ("C01", "9c3d6af", "a directory bind-mounted a second time beside itself was listed in one of the two places only (`find` lists both), without `symlinks`: visited directories were remembered by device and inode although nothing is followed (third audit, agent C02; C01 enumerates the shape in a private mount namespace)", []),
    ("C16", "17ff1da", "`log(243, 3)` printed 4.999999999999999, `log(125, 5)` 3.0000000000000004: the repair 54517d2 covered the bases 10 and 2 only (third audit; C16 draws the bases 3, 5, 6 and 100 and demands the exact exponent for every whole base)", []),
    ("C19", "6d20aa5", "`has_xattr()`, `xattr()`, `has_capabilities()`, `has_capability()` on an archive member read the attributes of the ARCHIVE file, so `where has_xattr('user.k')` selected every member of an archive that carries it (third audit; C19 enumerates an archive with an extended attribute)", []),
    ("C15", "0d89d11", "`-fsize + 0` was 123 where `0 - fsize` is -123 (a leading minus did not negate a size with a unit, which arithmetic then read as the number) (third audit; C15 has pairs of spellings that must show one value)", []),
    ("C17", "bdd0ea0", "`is_text` and `is_binary` of an unreadable file or dangling link printed `false` where the other content-derived columns are empty (third audit; they are among the columns of C17's unreadable-target case now)", []),
    ("C14", "0837add", "`size = 9.03107t` (9929766476259.00032 bytes) matched the file of ...259 bytes: the exact product of repair ec98393 was rounded into a float whose spacing there is 0.002; `2.0100000000000000000kb` (19 decimals) fell back to the floating product (third audit; both literals are in C14's list)", []),
    ("C10", "2e125e2", "a flat chain of some 20 000 `or` / `and` conditions (one word per argument) or 17 000 arithmetic operators ended with a stack overflow (SIGSEGV / abort), and `not (a or a ...)` over 3000 conditions took 8 s to parse: the tree of a chain was as deep as the chain is long (second audit; C10 now enumerates flat chains up to the length a command line can have)", []),
    ("C10", "cbb17ce", "`where is_dir = ''`: the empty text literal was accepted as the boolean false (status 0, rows) while every other text that is no boolean is rejected (second audit; '' and ' ' are now among C10's bad booleans, and literals that are no number on numeric columns are a fourth ill-typed kind)", []),
    ("C10", "9b6a0a7", "day('2020-0\u0661-01'): the date pattern matched non-ASCII digits and the integer parse of the capture was unwrapped (found by the eval_total fuzz target after 2e7 executions)", ["date-non-ascii-digit"]),
    ("C10", "69a0b27", "`name from './[a' depth 1 rx`: a malformed pattern in a regexp search root panicked (unwrap of Regex::new)", ["regexp-root-malformed"]),
]


_GIT_NEG_TREE = {"B": {"t": "d", "ch": {"a.log": {"t": "f", "c": ""}, "b.log": {"t": "f", "c": ""}}}, "a.log": {"t": "f", "c": ""}, "c.txt": {"t": "f", "c": ""}}

FIXED += [
    ("C11", "e415ac9", "the documented word operators eeq, ene, notrx, notlike were not recognised by the lexer (`name notlike '%.txt'` was a parse error)", ["word-operators", "eeq-notrx"]),
    ("C11", "0bb8203", "`BETWEEN` (and the root option `RX`) in upper case was compared case-sensitively by the parser and became an operator that never matches", []),
    ("C11", "8089789", "functions without arguments written without `()` only worked at the very end of the query: `where has_caps or size > 1` lost the `or`, `select has_caps from .` lost the `from`, `curdate` / `current_user` without brackets were rejected", ["curdate-without-brackets", "boolean-function-without-brackets"]),
    ("C11", "357dfa6", "a query passed as one argument that contains `version`, `help` or `nocolor` (e.g. the column exif_version) was taken for a command-line switch, unlike the same query split into words", []),
    ("C11", "faf3d4b", "the documented root option `regexp` was rejected (only its synonym `rx` was recognised after lexing)", []),
]

_LINK_TREE = {"real": {"t": "d", "ch": {"f.txt": {"t": "f", "c": ""}}}, "build": {"t": "l", "to": "real"}, "lnk": {"t": "l", "to": "real"},
              "out": {"t": "d", "ch": {"x": {"t": "f", "c": ""}}}, "keep.txt": {"t": "f", "c": ""}}
_NEG_TREE2 = {"a.log": {"t": "f", "c": ""}, "sub": {"t": "d", "ch": {"a.log": {"t": "f", "c": ""}, "b.log": {"t": "f", "c": ""}}}}

OPEN = [
    {"id": "K07", "property": "C14", "signature": "C14/format/short-unit-on-decimal-base-reads-back-binary",
     "what": "FORMAT_SIZE with the short-unit flag `s` on a decimal base (`%.2ds`, `skb`, `smb`): 1678123 is shown as `1.68M`, and by the "
             "documented unit table a bare `M` is 1024^2 - read back as a literal the text is 1761607 bytes, 5 % off; the short form "
             "drops the only letter that told the bases apart. What a decimal short unit should look like is a format decision, "
             "not a small repair (with `c` the documentation itself specifies the mismatch)",
     "pinned_case": {"kind": "format", "prec": 2, "space": False, "flags": "ds", "unit": "", "upper": False, "sizes": [24576, 1678123, 200000000]}},
    {"id": "K06", "property": "C20", "signature": "C20/git/over-ignore/path-negation-after-basename-wildcard",
     "what": "gitignore `?.log` (or `a*`) followed by `!sub/a.log`: git re-includes sub/a.log, fselect omits it - while parsing the "
             "file libgit2 (does_negate_rule) keeps a negation only if an earlier pattern of the same file wild-matches the negated "
             "TEXT, and `?.log` does not match the text `sub/a.log` (`*.log` does, and works); not repairable inside fselect",
     "pinned_case": {"tree": _NEG_TREE2, "tool": "git", "lines": ["?.log", "!sub/a.log"], "root": "dot", "sub": None, "switch": "option", "mode": ""}},
    {"id": "K05", "property": "C20", "signature": "C20/git/over-ignore/dir-pattern-hides-link-to-directory",
     "what": "gitignore `build/` (a directory-only pattern) and a symbolic link called `build` that leads to a directory: for git a "
             "link is no directory (lstat) and stays, fselect omits it - libgit2's is_path_ignored decides with stat() whether the "
             "path is a directory and its API takes no flag to say otherwise; hg and docker (fselect's own matchers) are right",
     "pinned_case": {"tree": _LINK_TREE, "tool": "git", "lines": ["build/", "out/"], "root": "dot", "sub": None, "switch": "option", "mode": ""}},
    {"id": "K04", "property": "C19", "signature": "C19/rows/member/same-name-collapsed",
     "what": "a zip archive with two members of the same name (`same.txt` 5 bytes, `other.txt`, `same.txt` 8 bytes; `unzip -l` lists "
             "three): fselect reports `same.txt` once - the zip crate keeps the members of an archive in a map keyed by their name, "
             "so the earlier one is gone before fselect sees it; not repairable inside fselect",
     "pinned_case": {"kind": "same-names"}},
    {"id": "K03", "property": "C20", "signature": "C20/git/under-ignore/negation-inside-excluded-directory",
     "what": "gitignore with the search root inside an excluded directory: `.gitignore` = `*.log`, `!a.log`, root `a3.log/` (a directory): "
             "git cannot re-include a file whose parent directory is excluded, fselect lists `a3.log/a.log` - libgit2's "
             "is_path_ignored applies the negation; only visible when the walk starts inside the excluded directory",
     "pinned_case": {"tree": {"a3.log": {"t": "d", "ch": {"a.log": {"t": "f", "c": ""}, "b.log": {"t": "f", "c": ""}, "c.txt": {"t": "f", "c": ""}}},
                              "z.txt": {"t": "f", "c": ""}},
                     "tool": "git", "lines": ["*.log", "!a.log"], "root": "sub", "sub": "a3.log", "switch": "option", "mode": ""}},
    {"id": "K02", "property": "C11", "signature": "C11/split/root-word-shares-argument",
     "what": "argument splitting: when the query is split into several shell words and a search-root word shares its word with tokens "
             "that follow it (`fselect name from 'sub depth 1'`, `from 'a/b, d'`), the whole rest of the word is taken as the path: "
             "the lexer deliberately lets a root run to the end of its argument so that unquoted paths with spaces work - a "
             "design decision, not a small repair",
     "pinned_case": {"toks": ["name", "from", "sub", "depth", "1", "where", "size", ">", "1"], "probe_known": True,
                     "renderings": [{"kind": "split/subset", "argv": ["name", "from", "sub depth 1", "where size > 1"]},
                                    {"kind": "split/subset", "argv": ["name from", "sub depth 1 where size > 1"]}]}},
    {"id": "K01", "property": "C20", "signature": "C20/git/over-ignore/negation-after-dir-pattern",
     "what": "gitignore: a negated pattern without a slash (`!a.log`) that follows a directory-prefixed pattern (`B/*.log`) does not "
             "re-include `B/a.log` although `git check-ignore` does: the verdict comes from libgit2 (git2 crate), whose "
             "does_negate_rule heuristic drops such a negation - not repairable by a small patch in fselect",
     "pinned_case": {"tree": _GIT_NEG_TREE, "tool": "git", "lines": ["B/*.log", "!a.log"], "root": "abs", "sub": None,
                     "switch": "option", "mode": ""}},
]


def main():
    out = []
    for i, (prop, commit, what, pins) in enumerate(FIXED, 1):
        out.append({
            "id": "F%02d" % i, "property": prop, "status": "fixed", "commit": commit, "what": what,
            "pinned": pins, "line": "fixed: property=%s %s %s" % (prop, commit, what),
        })
    for f in OPEN:
        d = dict(f)
        d["status"] = "open"
        out.append(d)
    path = os.path.join(os.path.dirname(os.path.dirname(os.path.abspath(__file__))), "known_findings.json")
    with open(path, "w") as fh:
        json.dump({"findings": out}, fh, indent=1)
    print("known_findings.json: %d fixed, %d open" % (len(FIXED), len(OPEN)))


if __name__ == "__main__":
    main()
